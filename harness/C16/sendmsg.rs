//! C16/C17/C18 — hooked sendmsg(2) (hand-written loop in sendmsg.rs) against the scripted kernel.
use super::*;
use crate::syscall::unix::__verif_harness_c16_model_rs::*;

#[derive(Debug, Default)]
struct Kernel {}
impl SendmsgSyscall for Kernel {
    extern "C" fn sendmsg(&self, _f: Option<&extern "C" fn(c_int, *const msghdr, c_int) -> ssize_t>, _fd: c_int, msg: *const msghdr, _flags: c_int) -> ssize_t {
        unsafe { let m = *msg; kernel_vectored(m.msg_iov, m.msg_iovlen as usize, false) }
    }
}

#[kani::proof]
#[kani::unwind(5)]
#[kani::stub(crate::syscall::unix::set_non_blocking_flag, set_flag_stub)]
#[kani::stub(crate::syscall::is_non_blocking, is_non_blocking_stub)]
#[kani::stub(crate::common::now, now_stub)]
#[kani::stub(crate::syscall::send_time_limit, limit_stub)]
#[kani::stub(crate::net::EventLoops::wait_write_event, wait_stub)]
fn c16_sendmsg() {
    let nb = begin(3);
    let iov = begin_vectored(false);
    let mut m: msghdr = unsafe { std::mem::zeroed() };
    m.msg_iov = iov.cast_mut();
    m.msg_iovlen = NIOV as _;
    let flags: c_int = kani::any(); // every flag word: the wrapper must not change what it hands down because of a flag
    let nio: NioSendmsgSyscall<Kernel> = NioSendmsgSyscall::default();
    let r = nio.sendmsg(None, 3, &raw const m, flags);
    check_common(r, nb, vtotal());
    unsafe {
        kani::cover!(MOVED > LENS[0] && LENS[0] > 0 && CALLS >= 2, "C16.cover_transfer_crossing_an_iovec_boundary");
        kani::cover!(WAITS > 0 && MOVED > 0, "C16.cover_would_block_after_progress");
    }
}

/// thorough tier: three entries (see c16_readv3)
#[kani::proof]
#[kani::unwind(5)]
#[kani::stub(crate::syscall::unix::set_non_blocking_flag, set_flag_stub)]
#[kani::stub(crate::syscall::is_non_blocking, is_non_blocking_stub)]
#[kani::stub(crate::common::now, now_stub)]
#[kani::stub(crate::syscall::send_time_limit, limit_stub)]
#[kani::stub(crate::net::EventLoops::wait_write_event, wait_stub)]
fn c16_sendmsg3() {
    let nb = begin(3);
    let iov = begin_vectored_n(false, 3);
    let mut m: msghdr = unsafe { std::mem::zeroed() };
    m.msg_iov = iov.cast_mut();
    m.msg_iovlen = 3;
    let flags: c_int = kani::any(); // every flag word: the wrapper must not change what it hands down because of a flag
    let nio: NioSendmsgSyscall<Kernel> = NioSendmsgSyscall::default();
    let r = nio.sendmsg(None, 3, &raw const m, flags);
    check_common(r, nb, vtotal());
    unsafe {
        kani::cover!(MOVED > LENS[0] && LENS[0] > 0 && CALLS >= 2, "C16.cover_transfer_crossing_an_iovec_boundary");
        kani::cover!(WAITS > 0 && MOVED > 0, "C16.cover_would_block_after_progress");
    }
}

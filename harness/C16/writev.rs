//! C16/C17/C18 — hooked writev(2) on a socket (expansion of impl_nio_write_iovec!) against the scripted kernel.
use super::*;
use crate::syscall::unix::__verif_harness_c16_model_rs::*;

#[derive(Debug, Default)]
struct Kernel {}
impl WritevSyscall for Kernel {
    extern "C" fn writev(&self, _f: Option<&extern "C" fn(c_int, *const iovec, c_int) -> ssize_t>, _fd: c_int, iov: *const iovec, iovcnt: c_int) -> ssize_t {
        kani::assert(iovcnt >= 0, "C17.element_count_matches_the_array_passed");
        unsafe { kernel_vectored(iov, iovcnt as usize, false) }
    }
}

#[kani::proof]
#[kani::unwind(5)]
#[kani::stub(crate::syscall::is_socket, is_socket_stub)]
#[kani::stub(crate::syscall::unix::set_non_blocking_flag, set_flag_stub)]
#[kani::stub(crate::syscall::is_non_blocking, is_non_blocking_stub)]
#[kani::stub(crate::common::now, now_stub)]
#[kani::stub(crate::syscall::send_time_limit, limit_stub)]
#[kani::stub(crate::net::EventLoops::wait_write_event, wait_stub)]
fn c16_writev() {
    let nb = begin(3);
    let iov = begin_vectored(false);
    let nio: NioWritevSyscall<Kernel> = NioWritevSyscall::default();
    let r = nio.writev(None, 3, iov, NIOV as c_int);
    check_common(r, nb, vtotal());
    unsafe {
        kani::cover!(MOVED > LENS[0] && LENS[0] > 0 && CALLS >= 2, "C16.cover_transfer_crossing_an_iovec_boundary");
        kani::cover!(WAITS > 0 && MOVED > 0, "C16.cover_would_block_after_progress");
    }
}


/// three entries (an empty one in the middle, a transfer ending on an inner boundary, ... need more than two)
#[kani::proof]
#[kani::unwind(5)]
#[kani::stub(crate::syscall::is_socket, is_socket_stub)]
#[kani::stub(crate::syscall::unix::set_non_blocking_flag, set_flag_stub)]
#[kani::stub(crate::syscall::is_non_blocking, is_non_blocking_stub)]
#[kani::stub(crate::common::now, now_stub)]
#[kani::stub(crate::syscall::send_time_limit, limit_stub)]
#[kani::stub(crate::net::EventLoops::wait_write_event, wait_stub)]
fn c16_writev3() {
    let nb = begin(3);
    let iov = begin_vectored_n(false, 3);
    let nio: NioWritevSyscall<Kernel> = NioWritevSyscall::default();
    let r = nio.writev(None, 3, iov, 3);
    check_common(r, nb, vtotal());
    
    unsafe {
        kani::cover!(LENS[1] == 0 && LENS[0] > 0 && MOVED > LENS[0] && CALLS >= 2, "C16.cover_transfer_across_an_empty_middle_entry");
        kani::cover!(MOVED == LENS[0] + LENS[1] && LENS[0] > 0 && LENS[1] > 0 && LENS[2] > 0 && CALLS >= 2, "C16.cover_transfer_ending_on_an_inner_boundary");
    }
}

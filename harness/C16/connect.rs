//! C18 — hooked connect(2) against a scripted kernel: blocking mode restored on every path, a non-blocking
//! descriptor gets the kernel's EINPROGRESS / EALREADY / EAGAIN at once instead of waiting.
//! Kernel contract: connect on a descriptor in non-blocking mode (the hook forces it) answers 0, one of the three
//! would-block errnos, or a hard error; it does not answer EINTR (it never blocks).
use super::*;
use crate::syscall::unix::__verif_harness_c16_model_rs::*;

static mut PEER_CONNECTED: bool = false;
static mut SO_ERR: c_int = 0;
static mut SOCKOPT_FAILS: bool = false;

#[no_mangle]
pub unsafe extern "C" fn getpeername(_fd: c_int, _a: *mut sockaddr, _l: *mut socklen_t) -> c_int {
    if PEER_CONNECTED { 0 } else { put_errno(libc::ENOTCONN); -1 }
}
#[no_mangle]
pub unsafe extern "C" fn getsockopt(_fd: c_int, _level: c_int, _name: c_int, value: *mut c_void, _len: *mut socklen_t) -> c_int {
    if SOCKOPT_FAILS { put_errno(libc::EBADF); return -1; }
    *value.cast::<c_int>() = SO_ERR;
    0
}

#[derive(Debug, Default)]
struct Kernel {}
impl ConnectSyscall for Kernel {
    extern "C" fn connect(&self, _f: Option<&extern "C" fn(c_int, *const sockaddr, socklen_t) -> c_int>, _fd: c_int, _a: *const sockaddr, _l: socklen_t) -> c_int {
        unsafe {
            CALLS += 1;
            if !NONBLOCK { SAW_BLOCKING_INNER = true; }
            let k: u8 = kani::any();
            match k {
                0 => 0,
                1 => { let e: c_int = kani::any(); kani::assume(e == libc::EINPROGRESS || e == libc::EALREADY || e == libc::EAGAIN); put_errno(e); LAST_FAIL_ERRNO = e; SAW_EAGAIN = true; -1 }
                _ => { let e: c_int = kani::any(); kani::assume(e == libc::ECONNREFUSED || e == libc::ENETUNREACH || e == libc::EBADF); put_errno(e); -1 }
            }
        }
    }
}

#[kani::proof]
#[kani::unwind(5)]
#[kani::stub(crate::syscall::unix::set_non_blocking_flag, set_flag_stub)]
#[kani::stub(crate::syscall::is_non_blocking, is_non_blocking_stub)]
#[kani::stub(crate::common::now, now_stub)]
#[kani::stub(crate::syscall::send_time_limit, limit_stub)]
#[kani::stub(crate::net::EventLoops::wait_write_event, wait_stub)]
fn c18_connect() {
    let keep = (getpeername as usize) ^ (getsockopt as usize);
    kani::assume(keep != 1);
    let nb = begin(4);
    unsafe { MAX_WAITS = 3; }
    unsafe { PEER_CONNECTED = kani::any(); SO_ERR = kani::any(); SOCKOPT_FAILS = kani::any(); kani::assume(SO_ERR >= 0 && SO_ERR < 200); }
    let nio: NioConnectSyscall<Kernel> = NioConnectSyscall::default();
    let r = nio.connect(None, 3, std::ptr::null(), 0);
    unsafe {
        kani::assert(NONBLOCK == nb, "C18.blocking_mode_restored_on_return");
        kani::assert(!SAW_BLOCKING_INNER, "C18.inner_call_always_nonblocking");
        kani::assert(r == 0 || r == -1, "C18.connect_returns_0_or_minus_1");
        if nb {
            kani::assert(WAITS == 0, "C18.nonblocking_descriptor_never_waits");
            if SAW_EAGAIN { kani::assert(r == -1 && errno() == LAST_FAIL_ERRNO, "C18.nonblocking_connect_reports_the_kernels_would_block_errno"); }
        }
        kani::cover!(r == 0 && WAITS >= 1, "C18.cover_connect_completes_after_waiting");
        kani::cover!(r == -1 && WAITS >= 1, "C18.cover_connect_fails_after_waiting");
    }
}

//! C16/C18 — hooked write(2) on a socket (expansion of impl_nio_write_buf!) against the scripted kernel.
use super::*;
use crate::syscall::unix::__verif_harness_c16_model_rs::*;

const MAXLEN: usize = 3;
static mut BUF: [u8; MAXLEN] = [0; MAXLEN];
static mut LEN: usize = 0;

#[derive(Debug, Default)]
struct Kernel {}
impl WriteSyscall for Kernel {
    extern "C" fn write(&self, _f: Option<&extern "C" fn(c_int, *const c_void, size_t) -> ssize_t>, _fd: c_int, buf: *const c_void, len: size_t) -> ssize_t {
        unsafe {
            let (a, b0) = (buf as usize, BUF.as_ptr() as usize);
            if a < b0 || a + len > b0 + LEN { kani::assert(false, "C16.request_lies_inside_the_callers_buffer"); kani::assume(false); }
            match kernel_answer(len, false) {
                Err(()) => -1,
                Ok(n) => {
                    let mut i = 0;
                    while i < n { kani::assert(*(buf as *const u8).add(i) == sb(MOVED + i), "C16.bytes_sent_are_the_next_stream_bytes_in_order"); i += 1; }
                    MOVED += n;
                    n as ssize_t
                }
            }
        }
    }
}

#[kani::proof]
#[kani::unwind(6)]
#[kani::stub(crate::syscall::is_socket, is_socket_stub)]
#[kani::stub(crate::syscall::unix::set_non_blocking_flag, set_flag_stub)]
#[kani::stub(crate::syscall::is_non_blocking, is_non_blocking_stub)]
#[kani::stub(crate::common::now, now_stub)]
#[kani::stub(crate::syscall::send_time_limit, limit_stub)]
#[kani::stub(crate::net::EventLoops::wait_write_event, wait_stub)]
fn c16_write() {
    let nb = begin(4);
    let len: usize = kani::any();
    kani::assume(len <= MAXLEN);
    unsafe { LEN = len; let mut p = 0; while p < MAXLEN { BUF[p] = sb(p); p += 1; } }
    let nio: NioWriteSyscall<Kernel> = NioWriteSyscall::default();
    let r = nio.write(None, 3, unsafe { BUF.as_ptr() }.cast(), len);
    check_common(r, nb, len);
    unsafe {
        kani::cover!(r == 3 && CALLS >= 3, "C16.cover_full_write_after_retries");
        kani::cover!(r == -1 && WAITS > 0, "C16.cover_failure_after_waiting");
        kani::cover!(r > 0 && (r as usize) < len, "C16.cover_partial_write");
    }
}

/// thorough tier: the same obligations with a kernel script of up to six answers
#[kani::proof]
#[kani::unwind(8)]
#[kani::stub(crate::syscall::is_socket, is_socket_stub)]
#[kani::stub(crate::syscall::unix::set_non_blocking_flag, set_flag_stub)]
#[kani::stub(crate::syscall::is_non_blocking, is_non_blocking_stub)]
#[kani::stub(crate::common::now, now_stub)]
#[kani::stub(crate::syscall::send_time_limit, limit_stub)]
#[kani::stub(crate::net::EventLoops::wait_write_event, wait_stub)]
fn c16_write_long() {
    let nb = begin(6);
    let len: usize = kani::any();
    kani::assume(len <= MAXLEN);
    unsafe { LEN = len; let mut p = 0; while p < MAXLEN { BUF[p] = sb(p); p += 1; } }
    let nio: NioWriteSyscall<Kernel> = NioWriteSyscall::default();
    let r = nio.write(None, 3, unsafe { BUF.as_ptr() }.cast(), len);
    check_common(r, nb, len);
    unsafe {
        kani::cover!(r == 3 && CALLS >= 3, "C16.cover_full_write_after_retries");
        kani::cover!(r == -1 && WAITS > 0, "C16.cover_failure_after_waiting");
        kani::cover!(r > 0 && (r as usize) < len, "C16.cover_partial_write");
    }
}

//! C18 — hooked accept(2) (expansion of impl_nio_read!) against the scripted kernel: blocking mode and waiting.
use super::*;
use crate::syscall::unix::__verif_harness_c16_model_rs::*;

static mut LAST_ANSWER: c_int = -1;

#[derive(Debug, Default)]
struct Kernel {}
impl AcceptSyscall for Kernel {
    extern "C" fn accept(&self, _f: Option<&extern "C" fn(c_int, *mut sockaddr, *mut socklen_t) -> c_int>, _fd: c_int, _a: *mut sockaddr, _l: *mut socklen_t) -> c_int {
        // a new connection is "1 unit": Ok(1) = a fresh descriptor, Err = -1 with errno
        match kernel_answer(1, false) {
            Err(()) => { unsafe { LAST_ANSWER = -1; } -1 }
            Ok(_) => { let fd: c_int = kani::any(); kani::assume(fd >= 0); unsafe { LAST_ANSWER = fd; MOVED = 0; } fd }
        }
    }
}

#[kani::proof]
#[kani::unwind(6)]
#[kani::stub(crate::syscall::is_socket, is_socket_stub)]
#[kani::stub(crate::syscall::unix::set_non_blocking_flag, set_flag_stub)]
#[kani::stub(crate::syscall::is_non_blocking, is_non_blocking_stub)]
#[kani::stub(crate::common::now, now_stub)]
#[kani::stub(crate::syscall::recv_time_limit, limit_stub)]
#[kani::stub(crate::net::EventLoops::wait_read_event, wait_stub)]
fn c18_accept() {
    let nb = begin(4);
    let nio: NioAcceptSyscall<Kernel> = NioAcceptSyscall::default();
    let r = nio.accept(None, 3, std::ptr::null_mut(), std::ptr::null_mut());
    unsafe {
        kani::assert(NONBLOCK == nb, "C18.blocking_mode_restored_on_return");
        kani::assert(!SAW_BLOCKING_INNER, "C18.inner_call_always_nonblocking");
        if nb {
            kani::assert(WAITS == 0, "C18.nonblocking_descriptor_never_waits");
            kani::assert(!CALL_AFTER_EAGAIN, "C18.nonblocking_would_block_returns_at_once");
            if SAW_EAGAIN { kani::assert(r == -1 && errno() == libc::EAGAIN, "C18.nonblocking_would_block_is_eagain"); }
        }
        kani::assert(r == LAST_ANSWER, "C18.accept_returns_the_kernels_answer");
        if r == -1 { kani::assert(errno() == LAST_FAIL_ERRNO, "C18.accept_errno_is_the_failing_calls"); }
        kani::cover!(r >= 0 && WAITS >= 2, "C18.cover_accept_after_waiting");
        kani::cover!(r == -1 && nb, "C18.cover_nonblocking_failure");
    }
}

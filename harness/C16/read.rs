//! C16/C18 — hooked read(2) on a socket (expansion of impl_nio_read_buf!) against the scripted kernel.
use super::*;
use crate::syscall::unix::__verif_harness_c16_model_rs::*;

const MAXLEN: usize = 3;
static mut BUF: [u8; MAXLEN] = [EE; MAXLEN];
static mut LEN: usize = 0;

#[derive(Debug, Default)]
struct Kernel {}
impl ReadSyscall for Kernel {
    extern "C" fn read(&self, _f: Option<&extern "C" fn(c_int, *mut c_void, size_t) -> ssize_t>, _fd: c_int, buf: *mut c_void, len: size_t) -> ssize_t {
        unsafe {
            let (a, b0) = (buf as usize, BUF.as_ptr() as usize);
            if a < b0 || a + len > b0 + LEN { kani::assert(false, "C16.request_lies_inside_the_callers_buffer"); kani::assume(false); }
            match kernel_answer(len, true) {
                Err(()) => -1,
                Ok(n) => {
                    let mut i = 0;
                    while i < n { *(buf as *mut u8).add(i) = sb(MOVED + i); i += 1; }
                    MOVED += n;
                    n as ssize_t
                }
            }
        }
    }
}

#[kani::proof]
#[kani::unwind(6)]
#[kani::stub(crate::syscall::is_socket, is_socket_stub)]
#[kani::stub(crate::syscall::unix::set_non_blocking_flag, set_flag_stub)]
#[kani::stub(crate::syscall::is_non_blocking, is_non_blocking_stub)]
#[kani::stub(crate::common::now, now_stub)]
#[kani::stub(crate::syscall::recv_time_limit, limit_stub)]
#[kani::stub(crate::net::EventLoops::wait_read_event, wait_stub)]
fn c16_read() {
    let nb = begin(4);
    let len: usize = kani::any();
    kani::assume(len <= MAXLEN);
    unsafe { LEN = len; }
    let nio: NioReadSyscall<Kernel> = NioReadSyscall::default();
    let r = nio.read(None, 3, unsafe { BUF.as_mut_ptr() }.cast(), len);
    check_common(r, nb, len);
    unsafe {
        let mut p = 0;
        while p < MAXLEN {
            if p < MOVED { kani::assert(BUF[p] == sb(p), "C16.stream_bytes_in_order_in_caller_buffer"); }
            else { kani::assert(BUF[p] == EE, "C16.nothing_written_beyond_the_bytes_moved"); }
            p += 1;
        }
        kani::cover!(r == 3 && CALLS >= 3, "C16.cover_full_read_after_retries");
        kani::cover!(r == -1 && WAITS > 0, "C16.cover_failure_after_waiting");
        kani::cover!(r > 0 && (r as usize) < len, "C16.cover_partial_read");
    }
}

/// thorough tier: the same obligations with a kernel script of up to six answers
#[kani::proof]
#[kani::unwind(8)]
#[kani::stub(crate::syscall::is_socket, is_socket_stub)]
#[kani::stub(crate::syscall::unix::set_non_blocking_flag, set_flag_stub)]
#[kani::stub(crate::syscall::is_non_blocking, is_non_blocking_stub)]
#[kani::stub(crate::common::now, now_stub)]
#[kani::stub(crate::syscall::recv_time_limit, limit_stub)]
#[kani::stub(crate::net::EventLoops::wait_read_event, wait_stub)]
fn c16_read_long() {
    let nb = begin(6);
    let len: usize = kani::any();
    kani::assume(len <= MAXLEN);
    unsafe { LEN = len; }
    let nio: NioReadSyscall<Kernel> = NioReadSyscall::default();
    let r = nio.read(None, 3, unsafe { BUF.as_mut_ptr() }.cast(), len);
    check_common(r, nb, len);
    unsafe {
        let mut p = 0;
        while p < MAXLEN {
            if p < MOVED { kani::assert(BUF[p] == sb(p), "C16.stream_bytes_in_order_in_caller_buffer"); }
            else { kani::assert(BUF[p] == EE, "C16.nothing_written_beyond_the_bytes_moved"); }
            p += 1;
        }
        kani::cover!(r == 3 && CALLS >= 3, "C16.cover_full_read_after_retries");
        kani::cover!(r == -1 && WAITS > 0, "C16.cover_failure_after_waiting");
        kani::cover!(r > 0 && (r as usize) < len, "C16.cover_partial_read");
    }
}

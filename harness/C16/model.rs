//! C16 / C17 / C18 — environment contract shared by the hooked socket I/O harnesses (child of syscall::unix).
//!
//! * the descriptor: one flag word (O_NONBLOCK or not); the two crate functions that reach fcntl(2)
//!   (`set_non_blocking_flag`, `is_non_blocking`) are replaced by their two-line contracts over that word, the
//!   callers `is_blocking` / `set_blocking` / `set_non_blocking` stay real;
//! * the kernel: a scripted peer. Every inner call answers, by `kani::any()`, with -1/EAGAIN, -1/EINTR,
//!   -1/<hard error> or a count in 0..=requested, and moves that many bytes of a numbered stream
//!   (stream byte p has value p+1) into / out of the ranges it was handed;
//! * time limit: any u64 > 0, clock: any monotone u64, `wait_*_event`: counted, any io::Result.
use super::*;
use std::time::Duration;

// Tool note (Kani 0.68, measured): with zero-initialised `static mut` scalars in this module, writes to them showed
// up in std's `RawVecInner::new_in` constant `ZERO_CAP` (a fresh `Vec::new()` came back with a non-zero capacity and
// the vectored wrappers then failed pointer checks inside `Vec::push`). Giving every scalar static a distinct
// non-zero initialiser makes the effect disappear; `begin()` assigns every one of them before use anyway.
pub(crate) const EE: u8 = 0xEE; // untouched buffer byte (stream bytes are 1..=MAXTOTAL, never 0xEE)

pub(crate) static mut NONBLOCK: bool = false; // the descriptor's O_NONBLOCK bit
pub(crate) static mut LIMIT: u64 = 0x7101;
pub(crate) static mut CLOCK: u64 = 0x7102;
pub(crate) static mut WAITS: usize = 0x7103;
pub(crate) static mut MAX_WAITS: usize = 0x7104; // bound on wait rounds where a loop iteration makes no kernel call (connect)
pub(crate) static mut WAIT_FAILS: bool = false; // whether a wait reported an error
pub(crate) static mut CALLS: usize = 0x7105; // inner (kernel) calls made
pub(crate) static mut MAX_CALLS: usize = 0x7106;
pub(crate) static mut MOVED: usize = 0x7107; // bytes the kernel has moved during this hooked call
pub(crate) static mut LAST_FAIL_ERRNO: c_int = 0x7108; // errno of the most recent failing kernel call
pub(crate) static mut KERNEL_FAILED: bool = false; // some kernel call answered -1
pub(crate) static mut LAST_WAS_HARD: bool = false;
pub(crate) static mut SAW_BLOCKING_INNER: bool = false; // an inner call ran while O_NONBLOCK was clear
pub(crate) static mut SAW_EAGAIN: bool = false;
pub(crate) static mut SAW_EOF: bool = false;
pub(crate) static mut CALL_AFTER_EAGAIN: bool = false; // a kernel call made after an earlier one answered EAGAIN

pub(crate) fn set_flag_stub(_fd: c_int, on: bool) -> bool { unsafe { NONBLOCK = on; } true }
pub(crate) fn is_non_blocking_stub(_fd: c_int) -> bool { unsafe { NONBLOCK } }
pub(crate) fn is_socket_stub(_fd: c_int) -> bool { true }
pub(crate) fn limit_stub(_fd: c_int) -> u64 { unsafe { LIMIT } }
pub(crate) fn now_stub() -> u64 { unsafe { let n: u64 = kani::any(); kani::assume(n >= CLOCK); CLOCK = n; n } }
pub(crate) fn wait_stub(_fd: c_int, _t: Option<Duration>) -> std::io::Result<()> {
    unsafe { WAITS += 1; kani::assume(WAITS <= MAX_WAITS); }
    if kani::any() { Ok(()) } else { unsafe { WAIT_FAILS = true; } Err(std::io::ErrorKind::Other.into()) }
}

pub(crate) fn errno() -> c_int { unsafe { *libc::__errno_location() } }
pub(crate) fn put_errno(e: c_int) { unsafe { *libc::__errno_location() = e; } }

/// set up one hooked call: caller's blocking mode, time limit, script length
pub(crate) fn begin(max_calls: usize) -> bool {
    let caller_nonblocking: bool = kani::any();
    let limit: u64 = kani::any();
    kani::assume(limit > 0);
    unsafe {
        NONBLOCK = caller_nonblocking; LIMIT = limit; CLOCK = 0; WAITS = 0; WAIT_FAILS = false;
        CALLS = 0; MAX_CALLS = max_calls; MAX_WAITS = usize::MAX; MOVED = 0; LAST_FAIL_ERRNO = 0; KERNEL_FAILED = false; LAST_WAS_HARD = false;
        SAW_BLOCKING_INNER = false; SAW_EAGAIN = false; SAW_EOF = false; CALL_AFTER_EAGAIN = false;
    }
    put_errno(0);
    caller_nonblocking
}

/// what the kernel answers to one call that could move up to `room` bytes: Err(()) = -1 with errno set, Ok(n)
pub(crate) fn kernel_answer(room: usize, is_read: bool) -> Result<usize, ()> {
    unsafe {
        CALLS += 1;
        kani::assume(CALLS <= MAX_CALLS); // the stated bound on the length of the kernel script
        if !NONBLOCK { SAW_BLOCKING_INNER = true; }
        if SAW_EAGAIN { CALL_AFTER_EAGAIN = true; }
        let kind: u8 = kani::any();
        match kind {
            0 => { fail(libc::EAGAIN, false); SAW_EAGAIN = true; Err(()) }
            1 => { fail(libc::EINTR, false); Err(()) }
            2 => {
                let e: c_int = kani::any();
                kani::assume(e == libc::ECONNRESET || e == libc::EPIPE || e == libc::EBADF || e == libc::ENOTCONN);
                fail(e, true); Err(())
            }
            _ => {
                let n: usize = kani::any();
                kani::assume(n <= room);
                if !is_read { kani::assume(n > 0 || room == 0); } // a write of >0 bytes never reports 0
                if is_read && n == 0 && room > 0 { SAW_EOF = true; }
                LAST_WAS_HARD = false;
                Ok(n)
            }
        }
    }
}

unsafe fn fail(e: c_int, hard: bool) { LAST_FAIL_ERRNO = e; KERNEL_FAILED = true; LAST_WAS_HARD = hard; put_errno(e); }

/// value of stream byte number p
pub(crate) fn sb(p: usize) -> u8 { (p + 1) as u8 }

/// obligations every hooked read/write-family call owes on return (C16 return value, C18 flag and waiting)
pub(crate) fn check_common(r: isize, caller_nonblocking: bool, total_requested: usize) {
    unsafe {
        kani::assert(NONBLOCK == caller_nonblocking, "C18.blocking_mode_restored_on_return");
        kani::assert(!SAW_BLOCKING_INNER, "C18.inner_call_always_nonblocking");
        if caller_nonblocking {
            kani::assert(WAITS == 0, "C18.nonblocking_descriptor_never_waits");
            kani::assert(!CALL_AFTER_EAGAIN, "C18.nonblocking_would_block_returns_at_once");
            if SAW_EAGAIN && MOVED == 0 { kani::assert(r == -1 && errno() == libc::EAGAIN, "C18.nonblocking_would_block_is_eagain"); }
        }
        if r >= 0 {
            kani::assert(r as usize == MOVED, "C16.return_value_is_total_bytes_moved");
        } else {
            kani::assert(r == -1, "C16.negative_return_is_minus_one");
            kani::assert(MOVED == 0, "C16.minus_one_only_if_nothing_moved");
            kani::assert(KERNEL_FAILED, "C16.minus_one_only_after_a_failing_kernel_call");
            kani::assert(errno() == LAST_FAIL_ERRNO, "C16.errno_is_the_failing_calls");
        }
        if total_requested == 0 && !KERNEL_FAILED { kani::assert(r == 0, "C16.zero_length_request_returns_0"); }
    }
}

// ---------------------------------------------------------------------------------------------- vectored calls
pub(crate) const NIOV: usize = 2; // entries handed to the 2-entry units
pub(crate) const MAXIOV: usize = 3; // capacity of the model (the 3-entry units use all)
pub(crate) static mut USED: usize = 0x7207; // entries the caller passes in this unit (2 or 3)
pub(crate) const VLEN: usize = 2; // bytes per caller iovec (bound)
pub(crate) static mut BUF0: [u8; VLEN] = [EE; VLEN];
pub(crate) static mut BUF1: [u8; VLEN] = [0xED; VLEN];
pub(crate) static mut BUF2: [u8; VLEN] = [0xEC; VLEN];
pub(crate) unsafe fn buf(j: usize) -> &'static mut [u8; VLEN] { if j == 0 { &mut *(&raw mut BUF0) } else if j == 1 { &mut *(&raw mut BUF1) } else { &mut *(&raw mut BUF2) } }
pub(crate) static mut LENS: [usize; MAXIOV] = [0x7201, 0x7202, 0x7208];
pub(crate) static mut CALLER_IOV: [libc::iovec; MAXIOV] = [libc::iovec { iov_base: 0x7203 as *mut std::ffi::c_void, iov_len: 0x7204 }, libc::iovec { iov_base: 0x7205 as *mut std::ffi::c_void, iov_len: 0x7206 }, libc::iovec { iov_base: 0x7209 as *mut std::ffi::c_void, iov_len: 0x720a }];

pub(crate) fn vtotal() -> usize { unsafe { LENS[0] + LENS[1] + LENS[2] } }

/// caller's iovec array: `used` (2 or 3) buffers of any length 0..=VLEN; for a write they hold the stream, for a read 0xEE
pub(crate) fn begin_vectored_n(is_read: bool, used: usize) -> *const libc::iovec {
    let l0: usize = kani::any();
    let l1: usize = kani::any();
    let l2: usize = if used == 3 { kani::any() } else { 0 };
    kani::assume(l0 <= VLEN && l1 <= VLEN && l2 <= VLEN);
    unsafe {
        LENS = [l0, l1, l2];
        USED = used;
        let mut j = 0;
        while j < MAXIOV {
            let before = if j == 0 { 0 } else if j == 1 { l0 } else { l0 + l1 };
            let mut b = 0;
            while b < VLEN { buf(j)[b] = if is_read { EE } else { sb(before + b) }; b += 1; }
            CALLER_IOV[j] = libc::iovec { iov_base: buf(j).as_mut_ptr().cast(), iov_len: LENS[j] };
            j += 1;
        }
        CALLER_IOV.as_ptr()
    }
}
pub(crate) fn begin_vectored(is_read: bool) -> *const libc::iovec { begin_vectored_n(is_read, NIOV) }

/// absolute stream position of address `a` if [a, a+l) lies inside one caller iovec, else None
unsafe fn abs_pos(a: usize, l: usize) -> Option<usize> {
    let b0 = buf(0).as_ptr() as usize;
    let b1 = buf(1).as_ptr() as usize;
    let b2 = buf(2).as_ptr() as usize;
    if a >= b0 && a + l <= b0 + LENS[0] { return Some(a - b0); }
    if a >= b1 && a + l <= b1 + LENS[1] { return Some(LENS[0] + (a - b1)); }
    if a >= b2 && a + l <= b2 + LENS[2] { return Some(LENS[0] + LENS[1] + (a - b2)); }
    None
}

/// the scripted kernel's side of readv/preadv/recvmsg (is_read) and writev/pwritev/sendmsg
pub(crate) unsafe fn kernel_vectored(iov: *const libc::iovec, cnt: usize, is_read: bool) -> isize {
    // C17: the count describes the array that was passed
    let ok = cnt <= 1024 && kani::mem::can_dereference(std::ptr::slice_from_raw_parts(iov, cnt));
    kani::assert(ok, "C17.element_count_matches_the_array_passed");
    kani::assume(ok);
    kani::assert(cnt <= USED, "C17.no_more_elements_than_the_caller_has_unfilled");
    kani::assume(cnt <= USED);
    // C17: every non-empty element lies in the caller's not-yet-transferred bytes, in order
    let mut cursor = MOVED;
    let mut room = 0usize;
    let mut k = 0;
    while k < cnt {
        let e = *iov.add(k);
        if e.iov_len > 0 {
            match abs_pos(e.iov_base as usize, e.iov_len) {
                Some(p) if p >= cursor => { cursor = p + e.iov_len; }
                Some(_) => { kani::assert(false, "C17.range_already_transferred_or_out_of_order"); kani::assume(false); }
                None => { kani::assert(false, "C17.range_outside_the_callers_buffers"); kani::assume(false); }
            }
            room += e.iov_len;
        }
        k += 1;
    }
    match kernel_answer(room, is_read) {
        Err(()) => -1,
        Ok(n) => {
            let mut left = n;
            let mut j = 0;
            let mut pos = MOVED;
            while j < cnt && left > 0 {
                let e = *iov.add(j);
                let take = if left < e.iov_len { left } else { e.iov_len };
                let mut b = 0;
                while b < take {
                    let p = (e.iov_base as *mut u8).add(b);
                    if is_read { *p = sb(pos); } else { kani::assert(*p == sb(pos), "C16.bytes_sent_are_the_next_stream_bytes_in_order"); }
                    pos += 1;
                    b += 1;
                }
                left -= take;
                j += 1;
            }
            MOVED += n;
            n as isize
        }
    }
}

/// after a vectored read: the caller's buffers, concatenated, hold stream bytes 0..MOVED in order and nothing else
pub(crate) fn check_read_buffers() {
    unsafe {
        let mut p = 0;
        let mut j = 0;
        while j < MAXIOV {
            let mut b = 0;
            while b < VLEN {
                if b < LENS[j] {
                    if p < MOVED { kani::assert(buf(j)[b] == sb(p), "C16.stream_bytes_in_order_in_caller_buffers"); }
                    else { kani::assert(buf(j)[b] == EE, "C16.nothing_written_beyond_the_bytes_moved"); }
                    p += 1;
                } else { kani::assert(buf(j)[b] == EE, "C16.nothing_written_outside_the_callers_iovecs"); }
                b += 1;
            }
            j += 1;
        }
    }
}

//! C07 — coroutine lifecycle follows the documented state machine. Child of coroutine::korosensei
//! (private fields visible, so the coroutine under test is a struct literal with every field the real
//! constructor sets; Coroutine::new's hashing/uuid/String code is off the path).
//!
//! Documented graph (core/docs/en/coroutine.md, property C07):
//!   Ready -> Running
//!   Running -> Suspend | Syscall | Complete | Error | Cancelled
//!   Syscall -> Running | Syscall (same call)
//!   Suspend(ts) -> Ready | Running     only once due (ts <= now)
//!   Complete, Error, Cancelled: terminal
use super::*;
use crate::common::constants::{CoroutineState, SyscallName, SyscallState};
include!("/verif/harness/common/prelude.rs");

type S = CoroutineState<(), ()>;

// ---------------------------------------------------------------- recording listener
#[derive(Debug)]
struct Rec;
static mut N_CHANGED: usize = 0;
static mut LAST_OLD: Option<S> = None;
static mut LAST_NEW: Option<S> = None;
static mut N_SPECIFIC: [usize; 7] = [0; 7]; // ready, running, suspend, syscall, cancel, complete, error
static mut SPEC_OLD: Option<S> = None;
static mut ERR_MSG_OK: bool = true;
static mut EXPECT_MSG: &str = "";
impl Listener<(), ()> for Rec {
    fn on_state_changed(&self, _: &CoroutineLocal, old: S, new: S) { unsafe { N_CHANGED += 1; LAST_OLD = Some(old); LAST_NEW = Some(new); } }
    fn on_ready(&self, _: &CoroutineLocal, old: S) { unsafe { N_SPECIFIC[0] += 1; SPEC_OLD = Some(old); } }
    fn on_running(&self, _: &CoroutineLocal, old: S) { unsafe { N_SPECIFIC[1] += 1; SPEC_OLD = Some(old); } }
    fn on_suspend(&self, _: &CoroutineLocal, old: S) { unsafe { N_SPECIFIC[2] += 1; SPEC_OLD = Some(old); } }
    fn on_syscall(&self, _: &CoroutineLocal, old: S) { unsafe { N_SPECIFIC[3] += 1; SPEC_OLD = Some(old); } }
    fn on_cancel(&self, _: &CoroutineLocal, old: S) { unsafe { N_SPECIFIC[4] += 1; SPEC_OLD = Some(old); } }
    fn on_complete(&self, _: &CoroutineLocal, old: S, _r: ()) { unsafe { N_SPECIFIC[5] += 1; SPEC_OLD = Some(old); } }
    fn on_error(&self, _: &CoroutineLocal, old: S, m: &str) { unsafe { N_SPECIFIC[6] += 1; SPEC_OLD = Some(old); ERR_MSG_OK = m.len() == EXPECT_MSG.len(); } }
}
fn specific_total() -> usize { unsafe { let mut t = 0; let mut i = 0; while i < 7 { t += N_SPECIFIC[i]; i += 1; } t } }

// ---------------------------------------------------------------- the coroutine under test
pub(crate) fn mk() -> Coroutine<'static, (), (), ()> {
    let stack = DefaultStack::new(4096).unwrap();
    let info = StackInfo { stack_top: stack.base().get(), stack_bottom: stack.limit().get() };
    Coroutine {
        id: 1,
        name: String::new(),
        inner: corosensei::Coroutine::with_stack(stack, |_, ()| Ok(())),
        state: Cell::new(CoroutineState::Ready),
        stack_infos: UnsafeCell::new(VecDeque::from([info])),
        listeners: VecDeque::new(),
        local: CoroutineLocal::default(),
        priority: None,
    }
}

fn any_name() -> SyscallName {
    let k: u8 = kani::any();
    match k { 0 => SyscallName::sleep, 1 => SyscallName::read, _ => SyscallName::write }
}
fn any_sub() -> SyscallState {
    let k: u8 = kani::any();
    match k { 0 => SyscallState::Executing, 1 => SyscallState::Suspend(kani::any()), 2 => SyscallState::Timeout, _ => SyscallState::Callback }
}
pub(crate) fn any_state() -> S {
    let k: u8 = kani::any();
    match k {
        0 => CoroutineState::Ready,
        1 => CoroutineState::Running,
        2 => CoroutineState::Suspend((), kani::any()),
        3 => CoroutineState::Syscall((), any_name(), any_sub()),
        4 => CoroutineState::Cancelled,
        5 => CoroutineState::Complete(()),
        _ => CoroutineState::Error("e"),
    }
}

/// is (before -> after) an edge of the documented graph, given the clock?
fn is_edge(before: S, after: S, now: u64) -> bool {
    match (before, after) {
        (CoroutineState::Ready, CoroutineState::Running) => true,
        (CoroutineState::Running, CoroutineState::Suspend(..)) => true,
        (CoroutineState::Running, CoroutineState::Syscall(..)) => true,
        (CoroutineState::Running, CoroutineState::Complete(_)) => true,
        (CoroutineState::Running, CoroutineState::Error(_)) => true,
        (CoroutineState::Running, CoroutineState::Cancelled) => true,
        (CoroutineState::Syscall(..), CoroutineState::Running) => true,
        (CoroutineState::Syscall(_, a, _), CoroutineState::Syscall(_, b, _)) => a == b,
        (CoroutineState::Suspend(_, ts), CoroutineState::Ready) => ts <= now,
        (CoroutineState::Suspend(_, ts), CoroutineState::Running) => ts <= now,
        _ => false,
    }
}
fn callback_index(after: S) -> usize {
    match after {
        CoroutineState::Ready => 0, CoroutineState::Running => 1, CoroutineState::Suspend(..) => 2,
        CoroutineState::Syscall(..) => 3, CoroutineState::Cancelled => 4, CoroutineState::Complete(_) => 5, CoroutineState::Error(_) => 6,
    }
}

/// O7.1 + O7.2 for one transition function `which` from ANY state with ANY arguments and ANY clock.
fn transition(which: u8) {
    let mut co = mk();
    co.add_listener(Rec);
    let before = any_state();
    co.state.set(before);
    let now: u64 = kani::any();
    unsafe { VERIF_NOW = now; EXPECT_MSG = "boom"; }
    let ts: u64 = kani::any();
    let name = any_name();
    let sub = any_sub();
    let r = match which {
        0 => co.ready(),
        1 => co.running(),
        2 => co.suspend((), ts),
        3 => co.syscall((), name, sub),
        4 => co.cancel(),
        5 => co.complete(()),
        _ => co.error("boom"),
    };
    let ok = r.is_ok();
    std::mem::forget(r);
    let after = co.state();
    let n = unsafe { N_CHANGED };
    // (a) at most one report per call; a report is exactly the change that happened and is a graph edge
    kani::assert(n <= 1, "C07.at_most_one_report_per_call");
    if n == 1 {
        kani::assert(unsafe { LAST_OLD } == Some(before) && unsafe { LAST_NEW } == Some(after), "C07.report_carries_old_and_new_state");
        kani::assert(is_edge(before, after, now), "C07.reported_change_is_a_documented_edge");
        kani::assert(specific_total() == 1 && unsafe { N_SPECIFIC[callback_index(after)] } == 1, "C07.exactly_one_specific_callback_of_the_right_kind");
        kani::assert(unsafe { SPEC_OLD } == Some(before), "C07.specific_callback_carries_old_state");
        kani::assert(ok, "C07.a_change_is_reported_as_success");
    } else {
        // (b) no report <=> no change
        kani::assert(after == before, "C07.unreported_call_leaves_state_unchanged");
        kani::assert(specific_total() == 0, "C07.no_specific_callback_without_change");
    }
    // (c) a refused call changes nothing
    if !ok { kani::assert(after == before && n == 0, "C07.refused_call_changes_nothing"); }
    // terminal states are never left
    if let CoroutineState::Complete(_) | CoroutineState::Error(_) | CoroutineState::Cancelled = before {
        kani::assert(after == before && n == 0, "C07.terminal_state_is_never_left");
    }
    // (d) documented edges are taken when requested
    let target: Option<S> = match which {
        0 => Some(CoroutineState::Ready), 1 => Some(CoroutineState::Running), 2 => Some(CoroutineState::Suspend((), ts)),
        3 => Some(CoroutineState::Syscall((), name, sub)), 4 => Some(CoroutineState::Cancelled),
        5 => Some(CoroutineState::Complete(())), _ => Some(CoroutineState::Error("boom")),
    };
    let t = target.unwrap();
    let legal = match (before, which) {
        (CoroutineState::Syscall(_, _, SyscallState::Executing), 1) => true, // Syscall -> Running (in-call return)
        (CoroutineState::Syscall(_, _, _), 1) => false,                       // parked sub-states: no obligation either way
        _ => is_edge(before, t, now),
    };
    let unconstrained = matches!((before, which), (CoroutineState::Syscall(_, _, SyscallState::Suspend(_) | SyscallState::Timeout | SyscallState::Callback), 1));
    if legal { kani::assert(ok && after == t && n == 1, "C07.documented_edge_is_taken"); }
    else if !unconstrained && before != t { kani::assert(after == before, "C07.undocumented_edge_is_refused"); }
    if which == 6 && n == 1 { kani::assert(unsafe { ERR_MSG_OK }, "C07.error_message_reported"); }
    kani::cover!(n == 1, "C07.cover_some_edge_taken");
    kani::cover!(!ok, "C07.cover_some_call_refused");
    std::mem::forget(co);
}

macro_rules! transition_harness {
    ($name: ident, $which: expr) => {
        #[kani::proof]
        #[kani::unwind(9)]
        #[kani::stub(catch_unwind, cu_stub)]
        #[kani::stub(crate::common::now, now_stub)]
        #[kani::stub(std::fmt::format, fmt_stub)]
        fn $name() { transition($which); }
    };
}
transition_harness!(c07_ready, 0);
transition_harness!(c07_running, 1);
transition_harness!(c07_suspend, 2);
transition_harness!(c07_syscall, 3);
transition_harness!(c07_cancel, 4);
transition_harness!(c07_complete, 5);
transition_harness!(c07_error, 6);

// =====================================================================================================
// Resume path: resume_with -> running -> raw_resume, one nondeterministic body step (corosensei contract shim).
// Shared by C07 (O7.3 terminal short-circuit, O7.4 yield classification) and C09 (request stacks).
// =====================================================================================================

/// model of the per-thread request stacks (suspender.rs: TIMESTAMP / CANCEL, push_front / pop_front);
/// their bodies are thread_local accessors Kani cannot execute; the contract is the two-line transcription
static mut TS: [u64; 2] = [0; 2];
static mut TS_N: usize = 0;
static mut CANCEL_N: usize = 0;

struct MC<'c, Param, Yield, Return>(std::marker::PhantomData<&'c (Param, Yield, Return)>);
impl<'c, Param, Yield, Return> MC<'c, Param, Yield, Return> {
    fn init_current(_c: &Coroutine<'c, Param, Yield, Return>) { unsafe { CUR_DEPTH += 1; } }
    fn clean_current() { unsafe { if CUR_DEPTH > 0 { CUR_DEPTH -= 1; } } }
    fn setup_sigvtalrm_handler() {}
    fn setup_trap_handler() {}
}
static mut CUR_DEPTH: usize = 0;
struct MS<'s, Param, Yield>(std::marker::PhantomData<&'s (Param, Yield)>);
impl<'s, Param, Yield> MS<'s, Param, Yield> {
    fn timestamp() -> u64 { unsafe { if TS_N == 0 { 0 } else { TS_N -= 1; TS[TS_N] } } }
    fn is_cancel() -> bool { unsafe { if CANCEL_N == 0 { false } else { CANCEL_N -= 1; true } } }
}

static mut CO: *const Coroutine<'static, (), (), ()> = std::ptr::null();
static mut STEP_SYSCALL: bool = false;      // the body enters a syscall state before yielding
static mut STEP_NAME: SyscallName = SyscallName::sleep;
static mut STEP_SUB: SyscallState = SyscallState::Executing;
static mut STEP_REQ: u8 = 0;                // 0 none, 1 until(ts), 2 cancel
static mut REQ_TS: u64 = 0;
static mut STATE_AT_BODY: Option<S> = None; // state user code observes when it starts to run
static mut SYSCALL_ACCEPTED: bool = false;

/// one body step, performed through the public API exactly as user code / hooked calls do
fn body_step() {
    unsafe {
        let co = &*CO;
        STATE_AT_BODY = Some(co.state());
        if STEP_SYSCALL {
            let r = co.syscall((), STEP_NAME, STEP_SUB);
            SYSCALL_ACCEPTED = r.is_ok();
            std::mem::forget(r);
        }
        match STEP_REQ {
            1 => { TS[TS_N] = REQ_TS; TS_N += 1; }   // Suspender::until_with pushes, then yields
            2 => { CANCEL_N += 1; }                    // Suspender::cancel pushes, then yields
            // a cancel (SIGVTALRM) lands after until_with has pushed its time and before the switch:
            // both requests are pending at this one yield
            3 => { TS[TS_N] = REQ_TS; TS_N += 1; CANCEL_N += 1; }
            _ => {}
        }
    }
}

macro_rules! resume_harness {
    ($name: ident, $body: expr) => {
        #[kani::proof]
        #[kani::unwind(9)]
        #[kani::stub(catch_unwind, cu_stub)]
        #[kani::stub(crate::common::now, now_stub)]
        #[kani::stub(std::fmt::format, fmt_stub)]
        #[kani::stub(crate::coroutine::Coroutine::init_current, MC::init_current)]
        #[kani::stub(crate::coroutine::Coroutine::clean_current, MC::clean_current)]
        #[kani::stub(crate::coroutine::Coroutine::setup_sigvtalrm_handler, MC::setup_sigvtalrm_handler)]
        #[kani::stub(crate::coroutine::Coroutine::setup_trap_handler, MC::setup_trap_handler)]
        #[kani::stub(crate::coroutine::suspender::Suspender::timestamp, MS::timestamp)]
        #[kani::stub(crate::coroutine::suspender::Suspender::is_cancel, MS::is_cancel)]
        fn $name() { $body }
    };
}

fn res_state(r: &std::io::Result<S>) -> Option<S> { match r { Ok(v) => Some(*v), Err(_) => None } }

// O7.3: a finished coroutine never leaves its terminal state or runs user code again.
resume_harness!(c07_resume_terminal, {
    let mut co = mk();
    co.add_listener(Rec);
    let k: u8 = kani::any();
    let before: S = match k { 0 => CoroutineState::Complete(()), 1 => CoroutineState::Error("e"), _ => CoroutineState::Cancelled };
    co.state.set(before);
    unsafe { CO = &co; corosensei::RESUME_HOOK = Some(body_step); VERIF_NOW = kani::any(); }
    co.inner.next = Some(CoroutineResult::Yield(()));
    let r = co.resume();
    let got = res_state(&r);
    std::mem::forget(r);
    kani::assert(co.inner.resumes == 0, "C07.terminal_coroutine_never_runs_user_code_again");
    kani::assert(co.state() == before && unsafe { N_CHANGED } == 0, "C07.terminal_resume_changes_nothing");
    match before {
        CoroutineState::Cancelled => kani::assert(got.is_none(), "C07.resume_of_cancelled_is_an_error"),
        _ => kani::assert(got == Some(before), "C07.resume_of_finished_returns_stored_outcome"),
    }
    std::mem::forget(co);
});

/// O7.4: after one body step the reported result and the final state are what the step dictates.
fn resume_step(out: u8) {
    let mut co = mk();
    co.add_listener(Rec);
    let before = any_state();
    co.state.set(before);
    let now: u64 = kani::any();
    let req: u8 = kani::any(); kani::assume(req <= 3);
    let ts: u64 = kani::any();
    let enter: bool = kani::any();
    unsafe {
        CO = &co; corosensei::RESUME_HOOK = Some(body_step); VERIF_NOW = now;
        STEP_SYSCALL = enter; STEP_NAME = any_name(); STEP_SUB = any_sub(); STEP_REQ = if out == 0 { req } else { 0 }; REQ_TS = ts;
    }
    co.inner.next = Some(match out { 0 => CoroutineResult::Yield(()), 1 => CoroutineResult::Return(Ok(())), _ => CoroutineResult::Return(Err("boom")) });
    let r = co.resume();
    let got = res_state(&r);
    std::mem::forget(r);
    let after = co.state();
    let ran = co.inner.resumes == 1;
    // user code runs only from a state that may run: Running, or a parked syscall sub-state being called back
    if ran {
        let at = unsafe { STATE_AT_BODY }.unwrap();
        let resumable = match before {
            CoroutineState::Ready => true,
            CoroutineState::Suspend(_, t) => t <= now,
            CoroutineState::Syscall(..) => true,
            CoroutineState::Running => true,
            _ => false,
        };
        kani::assert(resumable, "C07.user_code_runs_only_from_a_resumable_state");
        kani::assert(matches!(at, CoroutineState::Running | CoroutineState::Syscall(..)), "C07.user_code_observes_running_or_syscall");
        if let CoroutineState::Suspend(_, t) = before { kani::assert(t <= now, "C07.never_resumed_before_wake_up_time"); }
    } else {
        kani::assert(got.is_none() || matches!(before, CoroutineState::Complete(_) | CoroutineState::Error(_)), "C07.not_run_is_error_or_finished");
        kani::assert(after == before, "C07.not_run_leaves_state");
    }
    if ran {
        let at = unsafe { STATE_AT_BODY }.unwrap();
        let in_syscall_at_end = match (at, enter && unsafe { SYSCALL_ACCEPTED }) {
            (_, true) => true,
            (CoroutineState::Syscall(..), false) => true,
            _ => false,
        };
        match out {
            0 => {
                if in_syscall_at_end {
                    kani::assert(matches!(got, Some(CoroutineState::Syscall(..))) && got == Some(after), "C07.yield_in_syscall_reports_that_syscall_state");
                } else if unsafe { STEP_REQ } == 2 || unsafe { STEP_REQ } == 3 {
                    kani::assert(got == Some(CoroutineState::Cancelled) && after == CoroutineState::Cancelled, "C07.cancel_request_reports_cancelled");
                } else {
                    kani::assert(matches!(got, Some(CoroutineState::Suspend(..))) && got == Some(after), "C07.plain_yield_reports_suspend");
                }
            }
            1 => {
                if in_syscall_at_end { kani::assert(got.is_none(), "C07.return_inside_syscall_state_is_an_error"); }
                else { kani::assert(got == Some(CoroutineState::Complete(())) && after == CoroutineState::Complete(()), "C07.return_reports_complete"); }
            }
            _ => {
                if in_syscall_at_end { kani::assert(got.is_none(), "C07.panic_inside_syscall_state_is_an_error"); }
                else { kani::assert(matches!(got, Some(CoroutineState::Error(_))) && got == Some(after), "C07.panic_reports_error"); }
            }
        }
    }
    kani::cover!(ran && !enter, "C07.cover_resume_body_ran");
    kani::cover!(!ran, "C07.cover_resume_refused");
    std::mem::forget(co);
}
resume_harness!(c07_resume_yield, { resume_step(0) });
resume_harness!(c07_resume_return, { resume_step(1) });
resume_harness!(c07_resume_panic, { resume_step(2) });

// ----------------------------------------------------------------------------------------------- C09
/// O9.1 / O9.2: whatever state the coroutine is in at the yield (Running or any Syscall state) and whatever it
/// requested, after the resume returns both per-thread request stacks are empty again (so nothing leaks to
/// the next coroutine on this thread), and the reported wake-up time / cancellation are exactly those
/// requested in this yield: time 0 and not cancelled for a plain suspend.
resume_harness!(c09_requests_stay_with_their_yield, {
    let mut co = mk();
    let before: S = if kani::any() { CoroutineState::Ready } else { CoroutineState::Syscall((), any_name(), any_sub()) };
    co.state.set(before);
    let req: u8 = kani::any(); kani::assume(req <= 3);
    let ts: u64 = kani::any();
    let enter: bool = kani::any();
    unsafe {
        CO = &co; corosensei::RESUME_HOOK = Some(body_step); VERIF_NOW = kani::any();
        STEP_SYSCALL = enter; STEP_NAME = any_name(); STEP_SUB = any_sub(); STEP_REQ = req; REQ_TS = ts;
        TS_N = 0; CANCEL_N = 0; // Inv: both stacks empty while no coroutine runs on the thread
    }
    co.inner.next = Some(CoroutineResult::Yield(()));
    let r = co.resume();
    let got = res_state(&r);
    std::mem::forget(r);
    kani::assume(co.inner.resumes == 1);
    kani::assert(unsafe { TS_N } == 0, "C09.delay_request_does_not_outlive_its_yield");
    kani::assert(unsafe { CANCEL_N } == 0, "C09.cancel_request_does_not_outlive_its_yield");
    if let Some(CoroutineState::Suspend(_, t)) = got {
        kani::assert(t == if req == 1 { ts } else { 0 }, "C09.reported_wake_up_time_is_the_requested_one");
        kani::assert(req != 2 && req != 3, "C09.cancel_request_is_not_reported_as_suspend");
    }
    if got == Some(CoroutineState::Cancelled) { kani::assert(req == 2 || req == 3, "C09.cancelled_only_if_requested"); }
    kani::cover!(req == 3 && got == Some(CoroutineState::Cancelled), "C09.cover_cancel_lands_during_until");
    kani::cover!(req == 1 && matches!(got, Some(CoroutineState::Syscall(..))), "C09.cover_delay_request_in_syscall_state");
    kani::cover!(req == 0 && got == Some(CoroutineState::Suspend((), 0)), "C09.cover_plain_suspend_time_zero");
    std::mem::forget(co);
});

/// Two coroutines, one thread: the first yields with a request while in a syscall state, then the second does
/// a plain suspend. The second must be reported as Suspend(_, 0), not cancelled.
resume_harness!(c09_second_coroutine_plain_suspend, {
    let mut a = mk();
    let req: u8 = kani::any(); kani::assume(req == 1 || req == 2);
    let ts: u64 = kani::any();
    unsafe {
        CO = &a; corosensei::RESUME_HOOK = Some(body_step); VERIF_NOW = kani::any();
        STEP_SYSCALL = true; STEP_NAME = any_name(); STEP_SUB = SyscallState::Suspend(ts);
        STEP_REQ = req; REQ_TS = ts; TS_N = 0; CANCEL_N = 0;
    }
    a.inner.next = Some(CoroutineResult::Yield(()));
    let r = a.resume();
    kani::assert(matches!(res_state(&r), Some(CoroutineState::Syscall(..))), "C09.first_coroutine_yielded_in_syscall_state");
    std::mem::forget(r);
    let mut b = mk();
    unsafe { CO = &b; STEP_SYSCALL = false; STEP_REQ = 0; }
    b.inner.next = Some(CoroutineResult::Yield(()));
    let r = b.resume();
    let got = res_state(&r);
    std::mem::forget(r);
    kani::assert(got == Some(CoroutineState::Suspend((), 0)), "C09.plain_suspend_after_foreign_request_reports_time_zero_not_cancelled");
    std::mem::forget(a); std::mem::forget(b);
});

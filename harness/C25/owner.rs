//! C25 / O25.3 on the real owner: dropping a Coroutine - in any lifecycle state, never started, suspended in the
//! middle of its body, or finished - releases every value still stored in its local storage, exactly once.
//! Child of coroutine::korosensei (struct-literal coroutine, see harness/C07/korosensei.rs).
use super::*;
use crate::common::constants::{CoroutineState, SyscallName, SyscallState};

static mut DROPS: usize = 0;
struct D(u32);
impl Drop for D { fn drop(&mut self) { unsafe { DROPS += 1; } } }

fn mk() -> Coroutine<'static, (), (), ()> {
    let stack = DefaultStack::new(4096).unwrap();
    let info = StackInfo { stack_top: stack.base().get(), stack_bottom: stack.limit().get() };
    Coroutine {
        id: 1,
        name: String::new(),
        inner: corosensei::Coroutine::with_stack(stack, |_, ()| Ok(())),
        state: Cell::new(CoroutineState::Ready),
        stack_infos: UnsafeCell::new(VecDeque::from([info])),
        listeners: VecDeque::new(),
        local: Default::default(),
        priority: None,
    }
}

#[kani::proof]
#[kani::unwind(5)]
fn c25_dropping_the_coroutine_releases_its_locals() {
    let mut co = mk();
    // any point of the lifecycle: (started, done) of the underlying context and the reported state
    let started: bool = kani::any();
    let done: bool = kani::any();
    kani::assume(started || !done);
    co.inner.started = started;
    co.inner.done = done;
    let k: u8 = kani::any();
    co.state.set(match k {
        0 => CoroutineState::Ready,
        1 => CoroutineState::Suspend((), kani::any()),
        2 => CoroutineState::Syscall((), SyscallName::read, SyscallState::Suspend(kani::any())),
        3 => CoroutineState::Cancelled,
        4 => CoroutineState::Complete(()),
        _ => CoroutineState::Error("e"),
    });
    let mut n = 0;
    if kani::any() { let o = co.put("k", D(kani::any())); std::mem::forget(o); n += 1; }
    if kani::any() { let o = co.put("j", D(kani::any())); std::mem::forget(o); n += 1; }
    unsafe { DROPS = 0; }
    drop(co);
    kani::assert(unsafe { DROPS } == n, "C25.values_dropped_with_the_coroutine");
    kani::cover!(n == 2 && started && !done, "C25.cover_suspended_coroutine_dropped_with_two_values");
    kani::cover!(n == 2 && !started, "C25.cover_unstarted_coroutine_dropped");
}

//! C25 — coroutine-local storage is private, map-like, and released with its owner. Child of coroutine::local.
//! View: a map from two keys to Option<value id>. Values have observable identity and count their drops.
use super::*;

static mut DROPS: usize = 0;
struct D(u32);
impl Drop for D { fn drop(&mut self) { unsafe { DROPS += 1; } } }

const KEYS: [&str; 2] = ["k", "j"];

/// builds any map state over the two keys through the public constructor operations; returns the view
fn any_map(m: &CoroutineLocal<'static>) -> [Option<u32>; 2] {
    let mut view = [None, None];
    let mut i = 0;
    while i < 2 {
        if kani::any() {
            let v: u32 = kani::any();
            let old = m.put(KEYS[i], D(v));
            kani::assert(old.is_none(), "C25.put_on_fresh_key_returns_none");
            std::mem::forget(old);
            view[i] = Some(v);
        }
        i += 1;
    }
    view
}

fn read(m: &CoroutineLocal<'static>, i: usize) -> Option<u32> { m.get::<D>(KEYS[i]).map(|d| d.0) }

/// O25.1 + O25.2: from any map state, one operation behaves as the map contract says; the other key and
/// another instance are unchanged.
#[kani::proof]
#[kani::unwind(5)]
fn c25_map_step() {
    let a = CoroutineLocal::default();
    let b = CoroutineLocal::default();
    let va = any_map(&a);
    let vb = any_map(&b);
    let i: usize = kani::any(); kani::assume(i < 2);
    let o = 1 - i;
    let op: u8 = kani::any(); kani::assume(op < 4);
    let nv: u32 = kani::any();
    unsafe { DROPS = 0; }
    match op {
        0 => {
            let old = a.put(KEYS[i], D(nv));
            kani::assert(old.as_ref().map(|d| d.0) == va[i], "C25.put_returns_previous_value");
            std::mem::forget(old);
            kani::assert(read(&a, i) == Some(nv), "C25.get_returns_latest_value");
        }
        1 => {
            kani::assert(read(&a, i) == va[i], "C25.get_returns_stored_value");
        }
        2 => {
            match a.get_mut::<D>(KEYS[i]) {
                Some(d) => { kani::assert(va[i] == Some(d.0), "C25.get_mut_returns_stored_value"); d.0 = nv; }
                None => kani::assert(va[i].is_none(), "C25.get_mut_none_iff_absent"),
            }
            kani::assert(read(&a, i) == va[i].map(|_| nv), "C25.get_mut_aliases_the_stored_value");
        }
        _ => {
            let r = a.remove::<D>(KEYS[i]);
            kani::assert(r.as_ref().map(|d| d.0) == va[i], "C25.remove_returns_the_value");
            std::mem::forget(r);
            kani::assert(read(&a, i).is_none(), "C25.remove_deletes_the_key");
        }
    }
    kani::assert(read(&a, o) == va[o], "C25.other_key_unchanged");
    kani::assert(read(&b, 0) == vb[0] && read(&b, 1) == vb[1], "C25.other_instance_unchanged");
    kani::assert(unsafe { DROPS } == 0, "C25.no_value_dropped_behind_the_callers_back");
    kani::cover!(op == 0 && va[i].is_some(), "C25.cover_put_replaces");
    kani::cover!(op == 3 && va[i].is_some(), "C25.cover_remove_present");
    std::mem::forget(a); std::mem::forget(b);
}

/// O25.3: values still stored are dropped, exactly once each, when the owner is dropped; another owner's
/// values are not.
#[kani::proof]
#[kani::unwind(5)]
fn c25_drop_releases_values() {
    let a = CoroutineLocal::default();
    let b = CoroutineLocal::default();
    let va = any_map(&a);
    let vb = any_map(&b);
    let n = (va[0].is_some() as usize) + (va[1].is_some() as usize);
    unsafe { DROPS = 0; }
    drop(a);
    kani::assert(unsafe { DROPS } == n, "C25.values_dropped_with_owner");
    kani::assert(read(&b, 0) == vb[0] && read(&b, 1) == vb[1], "C25.drop_leaves_other_instance");
    kani::cover!(n == 2, "C25.cover_two_values_dropped");
    std::mem::forget(b);
}

/// Bounded histories (3 operations after any initial map state): every result agrees with the map view. The
/// single-step obligation above is inductive over the map's own state; this unit additionally covers state an
/// implementation may keep OUTSIDE the map between operations (a lookup cache, a tombstone list), which a single
/// step from API-built states cannot reach. Bounded: 3 steps, two keys.
#[kani::proof]
#[kani::unwind(5)]
fn c25_three_step_histories() {
    let a = CoroutineLocal::default();
    let mut view = any_map(&a);
    let mut step = 0;
    while step < 3 {
        let i: usize = kani::any(); kani::assume(i < 2);
        let op: u8 = kani::any(); kani::assume(op < 4);
        match op {
            0 => {
                let nv: u32 = kani::any();
                let old = a.put(KEYS[i], D(nv));
                kani::assert(old.as_ref().map(|d| d.0) == view[i], "C25.put_returns_previous_value");
                std::mem::forget(old);
                view[i] = Some(nv);
            }
            1 => { kani::assert(read(&a, i) == view[i], "C25.get_returns_stored_value"); }
            2 => {
                let nv: u32 = kani::any();
                match a.get_mut::<D>(KEYS[i]) {
                    Some(d) => { kani::assert(view[i] == Some(d.0), "C25.get_mut_returns_stored_value"); d.0 = nv; view[i] = Some(nv); }
                    None => kani::assert(view[i].is_none(), "C25.get_mut_none_iff_absent"),
                }
            }
            _ => {
                let r = a.remove::<D>(KEYS[i]);
                kani::assert(r.as_ref().map(|d| d.0) == view[i], "C25.remove_returns_the_value");
                std::mem::forget(r);
                view[i] = None;
            }
        }
        step += 1;
    }
    kani::assert(read(&a, 0) == view[0] && read(&a, 1) == view[1], "C25.final_contents_agree_with_the_view");
    std::mem::forget(a);
}

/// thorough tier, 4 operations. Bounded histories (3 operations after any initial map state): every result agrees with the map view. The
/// single-step obligation above is inductive over the map's own state; this unit additionally covers state an
/// implementation may keep OUTSIDE the map between operations (a lookup cache, a tombstone list), which a single
/// step from API-built states cannot reach. Bounded: 3 steps, two keys.
#[kani::proof]
#[kani::unwind(6)]
fn c25_four_step_histories() {
    let a = CoroutineLocal::default();
    let mut view = any_map(&a);
    let mut step = 0;
    while step < 4 {
        let i: usize = kani::any(); kani::assume(i < 2);
        let op: u8 = kani::any(); kani::assume(op < 4);
        match op {
            0 => {
                let nv: u32 = kani::any();
                let old = a.put(KEYS[i], D(nv));
                kani::assert(old.as_ref().map(|d| d.0) == view[i], "C25.put_returns_previous_value");
                std::mem::forget(old);
                view[i] = Some(nv);
            }
            1 => { kani::assert(read(&a, i) == view[i], "C25.get_returns_stored_value"); }
            2 => {
                let nv: u32 = kani::any();
                match a.get_mut::<D>(KEYS[i]) {
                    Some(d) => { kani::assert(view[i] == Some(d.0), "C25.get_mut_returns_stored_value"); d.0 = nv; view[i] = Some(nv); }
                    None => kani::assert(view[i].is_none(), "C25.get_mut_none_iff_absent"),
                }
            }
            _ => {
                let r = a.remove::<D>(KEYS[i]);
                kani::assert(r.as_ref().map(|d| d.0) == view[i], "C25.remove_returns_the_value");
                std::mem::forget(r);
                view[i] = None;
            }
        }
        step += 1;
    }
    kani::assert(read(&a, 0) == view[0] && read(&a, 1) == view[1], "C25.final_contents_agree_with_the_view");
    std::mem::forget(a);
}

/// values of a zero-sized type have destructors too (guard / marker tokens): they are released with the owner
static mut ZDROPS: usize = 0x7901;
struct Z;
impl Drop for Z { fn drop(&mut self) { unsafe { ZDROPS += 1; } } }
#[kani::proof]
#[kani::unwind(5)]
fn c25_drop_releases_zero_sized_values() {
    let a = CoroutineLocal::default();
    let n: usize = kani::any();
    kani::assume(n <= 2);
    if n >= 1 { let o = a.put("k", Z); std::mem::forget(o); }
    if n >= 2 { let o = a.put("j", Z); std::mem::forget(o); }
    kani::assert(a.get::<Z>("k").is_some() == (n >= 1), "C25.get_returns_stored_value");
    unsafe { ZDROPS = 0; }
    drop(a);
    kani::assert(unsafe { ZDROPS } == n, "C25.values_dropped_with_owner");
    kani::cover!(n == 2, "C25.cover_two_zero_sized_values_dropped");
}

//! C03 / C04 / C05 / C06 — single-operation obligations on the real OrderedWorkStealQueue / OrderedLocalQueue
//! (child module of common::ordered_work_steal, so the private fields are visible).
//!
//! States are written directly into the containers (the dependency shims expose their arrays): one shared queue
//! and two local queues, each a priority map with up to two occupied priorities (a third slot stays free so an
//! operation may create a priority), each priority holding 0..=CAP items, item values arbitrary (duplicates
//! allowed). "Any state" is therefore one nondeterministic choice; every obligation quantifies over all of them.
//!
//!   Inv_wf    : shared.len == number of items in the shared map, local.len == number of items in that local map
//!   Inv_reach : shared.len == number of items in the shared map, local.len >= number of items in that local map
//!               (what the code can reach sequentially: a thief cannot refresh its victim's counter)
use super::*;

pub(crate) type T = u8;
pub(crate) const CAP: usize = 2;
pub(crate) const MAXK: usize = crossbeam_skiplist::MAXKEYS;
const WB: usize = 4; // st3 shim ring size
const IB: usize = crossbeam_deque::MAXQ;

fn any_worker(max: usize) -> Worker<T> {
    let w = Worker::new(CAP);
    let n: usize = kani::any();
    kani::assume(n <= max && n <= CAP);
    let h: usize = kani::any();
    kani::assume(h < WB);
    let i = w.inner();
    i.head = h;
    let mut k = 0;
    while k < n { let v: T = kani::any(); i.buf[(h + k) % WB] = Some(v); k += 1; }
    i.len = n;
    w
}

fn any_injector(max: usize) -> Injector<T> {
    let q = Injector::new();
    let n: usize = kani::any();
    kani::assume(n <= max);
    let i = q.inner();
    let mut k = 0;
    while k < n { let v: T = kani::any(); i.buf[k] = Some(v); k += 1; }
    i.len = n;
    q
}

/// two distinct arbitrary priorities (the i64 extremes included)
fn any_keys() -> (c_longlong, c_longlong) {
    let a: c_longlong = kani::any();
    let b: c_longlong = kani::any();
    kani::assume(a != b);
    (a, b)
}

pub(crate) fn any_local_map(max_items: usize) -> SkipMap<c_longlong, Worker<T>> {
    let m = SkipMap::new();
    let (a, b) = any_keys();
    let s = m.raw();
    if kani::any() { s[0] = Some((a, any_worker(max_items))); }
    if kani::any() { s[1] = Some((b, any_worker(max_items))); }
    m
}

pub(crate) fn any_shared_map(max_items: usize) -> SkipMap<c_longlong, Injector<T>> {
    let m = SkipMap::new();
    let (a, b) = any_keys();
    let s = m.raw();
    if kani::any() { s[0] = Some((a, any_injector(max_items))); }
    if kani::any() { s[1] = Some((b, any_injector(max_items))); }
    m
}

// ---------------------------------------------------------------------------------------------- views
pub(crate) fn w_len(w: &Worker<T>) -> usize { w.inner().len }
pub(crate) fn w_at(w: &Worker<T>, k: usize) -> T { let i = w.inner(); i.buf[(i.head + k) % WB].unwrap_or(0) }
pub(crate) fn i_len(q: &Injector<T>) -> usize { q.inner().len }
pub(crate) fn i_at(q: &Injector<T>, k: usize) -> T { let i = q.inner(); i.buf[(i.head + k) % IB].unwrap_or(0) }

pub(crate) fn l_items(m: &SkipMap<c_longlong, Worker<T>>) -> usize {
    let s = m.raw();
    let mut n = 0;
    let mut j = 0;
    while j < MAXK { if let Some((_, w)) = &s[j] { n += w_len(w); } j += 1; }
    n
}
pub(crate) fn g_items(m: &SkipMap<c_longlong, Injector<T>>) -> usize {
    let s = m.raw();
    let mut n = 0;
    let mut j = 0;
    while j < MAXK { if let Some((_, q)) = &s[j] { n += i_len(q); } j += 1; }
    n
}
/// occurrences of item value x (conservation is stated as: for every x, the count is preserved)
pub(crate) fn l_count(m: &SkipMap<c_longlong, Worker<T>>, x: T) -> usize {
    let s = m.raw();
    let mut n = 0;
    let mut j = 0;
    while j < MAXK {
        if let Some((_, w)) = &s[j] { let mut k = 0; while k < w_len(w) { if w_at(w, k) == x { n += 1; } k += 1; } }
        j += 1;
    }
    n
}
pub(crate) fn g_count(m: &SkipMap<c_longlong, Injector<T>>, x: T) -> usize {
    let s = m.raw();
    let mut n = 0;
    let mut j = 0;
    while j < MAXK {
        if let Some((_, q)) = &s[j] { let mut k = 0; while k < i_len(q) { if i_at(q, k) == x { n += 1; } k += 1; } }
        j += 1;
    }
    n
}
/// (priority, head item) of the smallest non-empty priority
pub(crate) fn l_front(m: &SkipMap<c_longlong, Worker<T>>) -> Option<(c_longlong, T)> {
    let s = m.raw();
    let mut best: Option<(c_longlong, T)> = None;
    let mut j = 0;
    while j < MAXK {
        if let Some((k, w)) = &s[j] { if w_len(w) > 0 { match best { Some((bk, _)) if bk < *k => {} _ => { best = Some((*k, w_at(w, 0))); } } } }
        j += 1;
    }
    best
}
pub(crate) fn g_front(m: &SkipMap<c_longlong, Injector<T>>) -> Option<(c_longlong, T)> {
    let s = m.raw();
    let mut best: Option<(c_longlong, T)> = None;
    let mut j = 0;
    while j < MAXK {
        if let Some((k, q)) = &s[j] { if i_len(q) > 0 { match best { Some((bk, _)) if bk < *k => {} _ => { best = Some((*k, i_at(q, 0))); } } } }
        j += 1;
    }
    best
}
/// occurrences of x stored under priority p
pub(crate) fn l_count_at(m: &SkipMap<c_longlong, Worker<T>>, p: c_longlong, x: T) -> usize {
    let s = m.raw();
    let mut n = 0;
    let mut j = 0;
    while j < MAXK {
        if let Some((k, w)) = &s[j] { if *k == p { let mut i = 0; while i < w_len(w) { if w_at(w, i) == x { n += 1; } i += 1; } } }
        j += 1;
    }
    n
}
pub(crate) fn g_count_at(m: &SkipMap<c_longlong, Injector<T>>, p: c_longlong, x: T) -> usize {
    let s = m.raw();
    let mut n = 0;
    let mut j = 0;
    while j < MAXK {
        if let Some((k, q)) = &s[j] { if *k == p { let mut i = 0; while i < i_len(q) { if i_at(q, i) == x { n += 1; } i += 1; } } }
        j += 1;
    }
    n
}
/// the last item stored under priority p (None if that priority is empty or absent)
pub(crate) fn l_back_at(m: &SkipMap<c_longlong, Worker<T>>, p: c_longlong) -> Option<T> {
    let s = m.raw();
    let mut j = 0;
    while j < MAXK { if let Some((k, w)) = &s[j] { if *k == p && w_len(w) > 0 { return Some(w_at(w, w_len(w) - 1)); } } j += 1; }
    None
}
pub(crate) fn g_back_at(m: &SkipMap<c_longlong, Injector<T>>, p: c_longlong) -> Option<T> {
    let s = m.raw();
    let mut j = 0;
    while j < MAXK { if let Some((k, q)) = &s[j] { if *k == p && i_len(q) > 0 { return Some(i_at(q, i_len(q) - 1)); } } j += 1; }
    None
}

/// the shared queue object, built field by field (OrderedWorkStealQueue::new + local_queue() is what made CBMC explode)
pub(crate) fn mk_shared(shared: SkipMap<c_longlong, Injector<T>>, l0: SkipMap<c_longlong, Worker<T>>, l1: SkipMap<c_longlong, Worker<T>>) -> OrderedWorkStealQueue<T> {
    let n = g_items(&shared);
    let mut v = VecDeque::with_capacity(2);
    v.push_back(l0);
    v.push_back(l1);
    OrderedWorkStealQueue { shared_queue: shared, len: AtomicUsize::new(n), local_capacity: CAP, local_queues: v, index: AtomicUsize::new(0) }
}

pub(crate) fn mk_local<'l>(q: &'l OrderedWorkStealQueue<T>, idx: usize, believed: usize, tick: u32) -> OrderedLocalQueue<'l, T> {
    OrderedLocalQueue { tick: AtomicU32::new(tick), shared: q, stealing: AtomicBool::new(false), queue: q.local_queues.get(idx).unwrap(), len: AtomicUsize::new(believed) }
}

// ---------------------------------------------------------------------------------------------- C06
/// O6.1a: tick() returns (c + 1) mod 2^32 and leaves the counter at the value it returned
#[kani::proof]
#[kani::unwind(4)]
fn q_ordered_tick_contract() {
    let q = mk_shared(SkipMap::new(), SkipMap::new(), SkipMap::new());
    let c: u32 = kani::any();
    let a = mk_local(&q, 0, 0, c);
    let r = a.tick();
    kani::assert(r == c.wrapping_add(1), "C06.tick_returns_counter_plus_one_mod_2_32");
    kani::assert(a.tick.load(Ordering::Acquire) == r, "C06.tick_leaves_the_counter_at_the_returned_value");
    kani::cover!(c == u32::MAX, "C06.cover_tick_wraps");
    std::mem::forget(a);
    std::mem::forget(q);
}

/// O6.2 + O5 (pop order) + O3 (conservation of this step): from every well-formed state and every tick value,
/// pop returns the shared queue's front when this is a 61st tick and the shared queue holds work, otherwise the
/// local queue's front when it holds work; exactly that one item leaves, nothing else moves.
#[kani::proof]
#[kani::unwind(10)]
fn q_ordered_pop_order() {
    let g = any_shared_map(2);
    let l0 = any_local_map(2);
    let gf = g_front(&g);
    let lf = l_front(&l0);
    let x: T = kani::any();
    let (gc, lc) = (g_count(&g, x), l_count(&l0, x));
    let (gn, ln) = (g_items(&g), l_items(&l0));
    kani::assume(lf.is_some() || gf.is_some()); // the idle case (steal) is q_ordered_idle_pop_finds_work
    let q = mk_shared(g, l0, SkipMap::new());
    let c: u32 = kani::any();
    let a = mk_local(&q, 0, ln, c);
    unsafe { rand::NEXT_CHOICE = kani::any(); } // the victim order of a steal is any
    let r = a.pop();
    let sixty_first = c.wrapping_add(1) % 61 == 0;
    let from_shared = (sixty_first && gf.is_some()) || lf.is_none();
    if from_shared {
        kani::assert(r == gf.map(|e| e.1), "C06.every_61st_pop_serves_the_shared_queue_first");
        kani::assert(l_items(a.queue) == ln && l_count(a.queue, x) == lc, "C06.local_queue_untouched_when_shared_is_served");
        kani::assert(g_items(&q.shared_queue) == gn - 1 && q.len() == gn - 1, "C03.shared_len_counts_the_items_it_holds");
        kani::assert(g_count(&q.shared_queue, x) + (if r == Some(x) { 1 } else { 0 }) == gc, "C03.pop_removes_exactly_the_returned_item");
    } else {
        kani::assert(r == lf.map(|e| e.1), "C05.pop_returns_the_front_of_the_smallest_nonempty_priority");
        kani::assert(g_items(&q.shared_queue) == gn && g_count(&q.shared_queue, x) == gc && q.len() == gn, "C03.shared_queue_untouched_by_a_local_pop");
        kani::assert(l_items(a.queue) == ln - 1 && a.local_len() == ln - 1, "C03.local_len_counts_the_items_it_holds");
        kani::assert(l_count(a.queue, x) + (if r == Some(x) { 1 } else { 0 }) == lc, "C03.pop_removes_exactly_the_returned_item");
    }
    kani::cover!(sixty_first && gf.is_some() && lf.is_some(), "C06.cover_61st_tick_with_both_queues_nonempty");
    kani::cover!(!sixty_first && gf.is_some() && lf.is_some(), "C06.cover_ordinary_tick_with_both_queues_nonempty");
    std::mem::forget(a);
    std::mem::forget(q);
}

//! C03 / C04 / C05 / C06 — single-operation obligations on the real OrderedWorkStealQueue / OrderedLocalQueue
//! (child module of common::ordered_work_steal, so the private fields are visible).
//!
//! States are written directly into the containers (the dependency shims expose their arrays): one shared queue
//! and two local queues, each a priority map with up to two occupied priorities (a third slot stays free so an
//! operation may create a priority), each priority holding 0..=CAP items, item values arbitrary (duplicates
//! allowed). "Any state" is therefore one nondeterministic choice; every obligation quantifies over all of them.
//!
//!   Inv_wf    : shared.len == number of items in the shared map, local.len == number of items in that local map
//!   Inv_reach : shared.len == number of items in the shared map, local.len >= number of items in that local map
//!               (what the code can reach sequentially: a thief cannot refresh its victim's counter)
use super::*;

pub(crate) type It = u8;
pub(crate) const CAP: usize = 2;
pub(crate) const MAXK: usize = crossbeam_skiplist::MAXKEYS;
const WB: usize = st3::fifo::MAXCAP; // st3 shim ring size
const IB: usize = crossbeam_deque::MAXQ;

fn any_worker(max: usize) -> Worker<It> { any_worker_cap(CAP, max) }
fn any_worker_cap(cap: usize, max: usize) -> Worker<It> {
    let w = Worker::new(cap);
    let n: usize = kani::any();
    kani::assume(n <= max && n <= cap);
    let h: usize = kani::any();
    kani::assume(h < WB);
    let i = w.inner();
    i.head = h;
    let mut k = 0;
    while k < n { let v: It = kani::any(); i.buf[(h + k) % WB] = Some(v); k += 1; }
    i.len = n;
    w
}

fn any_injector(max: usize) -> Injector<It> {
    let q = Injector::new();
    let n: usize = kani::any();
    kani::assume(n <= max);
    let i = q.inner();
    let mut k = 0;
    while k < n { let v: It = kani::any(); i.buf[k] = Some(v); k += 1; }
    i.len = n;
    q
}

/// two distinct arbitrary priorities (the i64 extremes included)
fn any_keys() -> (c_longlong, c_longlong) {
    let a: c_longlong = kani::any();
    let b: c_longlong = kani::any();
    kani::assume(a != b);
    (a, b)
}

pub(crate) type LSlot = Option<(c_longlong, Worker<It>)>;
pub(crate) type GSlot = Option<(c_longlong, Injector<It>)>;
/// the three slot objects of one map live in the harness (typed stack objects), see the shim's layout note
pub(crate) struct LSlots(pub LSlot, pub LSlot, pub LSlot);
pub(crate) struct GSlots(pub GSlot, pub GSlot, pub GSlot);
impl LSlots {
    pub(crate) fn empty() -> Self { LSlots(None, None, None) }
    /// up to two occupied priorities with up to `max_items` items each
    pub(crate) fn any(max_items: usize) -> Self {
        let (a, b) = any_keys();
        LSlots(if kani::any() { Some((a, any_worker(max_items))) } else { None }, if kani::any() { Some((b, any_worker(max_items))) } else { None }, None)
    }
    /// the same with workers of capacity `cap` holding up to `cap` items each
    pub(crate) fn any_cap(cap: usize) -> Self {
        let (a, b) = any_keys();
        LSlots(if kani::any() { Some((a, any_worker_cap(cap, cap))) } else { None }, if kani::any() { Some((b, any_worker_cap(cap, cap))) } else { None }, None)
    }
    pub(crate) fn map(&mut self) -> SkipMap<c_longlong, Worker<It>> { unsafe { SkipMap::from_slots(&raw mut self.0, &raw mut self.1, &raw mut self.2) } }
}
impl GSlots {
    pub(crate) fn empty() -> Self { GSlots(None, None, None) }
    /// a shared map that really holds what the pop contract stub will answer (one item under any priority, or
    /// nothing): whichever route the code under test takes to the shared queue, it finds the same
    pub(crate) fn holding(sv: Option<It>) -> Self {
        match sv {
            Some(v) => { let q = Injector::new(); q.push(v); let p: c_longlong = kani::any(); GSlots(Some((p, q)), None, None) }
            None => GSlots(None, None, None),
        }
    }
    pub(crate) fn any(max_items: usize) -> Self {
        let (a, b) = any_keys();
        GSlots(if kani::any() { Some((a, any_injector(max_items))) } else { None }, if kani::any() { Some((b, any_injector(max_items))) } else { None }, None)
    }
    pub(crate) fn map(&mut self) -> SkipMap<c_longlong, Injector<It>> { unsafe { SkipMap::from_slots(&raw mut self.0, &raw mut self.1, &raw mut self.2) } }
}

// ---------------------------------------------------------------------------------------------- views
pub(crate) fn w_len(w: &Worker<It>) -> usize { w.inner().len }
pub(crate) fn w_at(w: &Worker<It>, k: usize) -> It { let i = w.inner(); i.buf[(i.head + k) % WB].unwrap_or(0) }
pub(crate) fn i_len(q: &Injector<It>) -> usize { q.inner().len }
pub(crate) fn i_at(q: &Injector<It>, k: usize) -> It { let i = q.inner(); i.buf[(i.head + k) % IB].unwrap_or(0) }

pub(crate) fn l_items(m: &SkipMap<c_longlong, Worker<It>>) -> usize {
    let mut n = 0;
    let mut j = 0;
    while j < MAXK { if let Some((_, w)) = m.slot(j) { n += w_len(w); } j += 1; }
    n
}
pub(crate) fn g_items(m: &SkipMap<c_longlong, Injector<It>>) -> usize {
    let mut n = 0;
    let mut j = 0;
    while j < MAXK { if let Some((_, q)) = m.slot(j) { n += i_len(q); } j += 1; }
    n
}
/// Inv (bucket clause): every priority bucket of a local queue can hold the whole local capacity - otherwise a push
/// below the capacity overflows to the shared queue and a less urgent local item is served before it
pub(crate) fn l_buckets_have_capacity(m: &SkipMap<c_longlong, Worker<It>>, cap: usize) -> bool {
    let mut j = 0;
    while j < MAXK { if let Some((_, w)) = m.slot(j) { if w.capacity() < cap { return false; } } j += 1; }
    true
}
/// occurrences of item value x (conservation is stated as: for every x, the count is preserved)
pub(crate) fn l_count(m: &SkipMap<c_longlong, Worker<It>>, x: It) -> usize {
    let mut n = 0;
    let mut j = 0;
    while j < MAXK {
        if let Some((_, w)) = m.slot(j) { let mut k = 0; while k < w_len(w) { if w_at(w, k) == x { n += 1; } k += 1; } }
        j += 1;
    }
    n
}
pub(crate) fn g_count(m: &SkipMap<c_longlong, Injector<It>>, x: It) -> usize {
    let mut n = 0;
    let mut j = 0;
    while j < MAXK {
        if let Some((_, q)) = m.slot(j) { let mut k = 0; while k < i_len(q) { if i_at(q, k) == x { n += 1; } k += 1; } }
        j += 1;
    }
    n
}
/// (priority, head item) of the smallest non-empty priority
pub(crate) fn l_front(m: &SkipMap<c_longlong, Worker<It>>) -> Option<(c_longlong, It)> {
    let mut best: Option<(c_longlong, It)> = None;
    let mut j = 0;
    while j < MAXK {
        if let Some((k, w)) = m.slot(j) { if w_len(w) > 0 { match best { Some((bk, _)) if bk < *k => {} _ => { best = Some((*k, w_at(w, 0))); } } } }
        j += 1;
    }
    best
}
pub(crate) fn g_front(m: &SkipMap<c_longlong, Injector<It>>) -> Option<(c_longlong, It)> {
    let mut best: Option<(c_longlong, It)> = None;
    let mut j = 0;
    while j < MAXK {
        if let Some((k, q)) = m.slot(j) { if i_len(q) > 0 { match best { Some((bk, _)) if bk < *k => {} _ => { best = Some((*k, i_at(q, 0))); } } } }
        j += 1;
    }
    best
}
/// occurrences of x stored under priority p
pub(crate) fn l_count_at(m: &SkipMap<c_longlong, Worker<It>>, p: c_longlong, x: It) -> usize {
    let mut n = 0;
    let mut j = 0;
    while j < MAXK {
        if let Some((k, w)) = m.slot(j) { if *k == p { let mut i = 0; while i < w_len(w) { if w_at(w, i) == x { n += 1; } i += 1; } } }
        j += 1;
    }
    n
}
pub(crate) fn g_count_at(m: &SkipMap<c_longlong, Injector<It>>, p: c_longlong, x: It) -> usize {
    let mut n = 0;
    let mut j = 0;
    while j < MAXK {
        if let Some((k, q)) = m.slot(j) { if *k == p { let mut i = 0; while i < i_len(q) { if i_at(q, i) == x { n += 1; } i += 1; } } }
        j += 1;
    }
    n
}
/// the last item stored under priority p (None if that priority is empty or absent)
pub(crate) fn l_back_at(m: &SkipMap<c_longlong, Worker<It>>, p: c_longlong) -> Option<It> {
    let mut j = 0;
    while j < MAXK { if let Some((k, w)) = m.slot(j) { if *k == p && w_len(w) > 0 { return Some(w_at(w, w_len(w) - 1)); } } j += 1; }
    None
}
pub(crate) fn g_back_at(m: &SkipMap<c_longlong, Injector<It>>, p: c_longlong) -> Option<It> {
    let mut j = 0;
    while j < MAXK { if let Some((k, q)) = m.slot(j) { if *k == p && i_len(q) > 0 { return Some(i_at(q, i_len(q) - 1)); } } j += 1; }
    None
}

/// the shared queue object, built field by field (OrderedWorkStealQueue::new + local_queue() is what made CBMC explode)
pub(crate) fn mk_shared(shared: SkipMap<c_longlong, Injector<It>>, l0: SkipMap<c_longlong, Worker<It>>, l1: SkipMap<c_longlong, Worker<It>>) -> OrderedWorkStealQueue<It> { mk_shared_cap(CAP, shared, l0, l1) }
pub(crate) fn mk_shared_cap(cap: usize, shared: SkipMap<c_longlong, Injector<It>>, l0: SkipMap<c_longlong, Worker<It>>, l1: SkipMap<c_longlong, Worker<It>>) -> OrderedWorkStealQueue<It> {
    let n = g_items(&shared);
    let mut v = VecDeque::with_capacity(2);
    v.push_back(l0);
    v.push_back(l1);
    OrderedWorkStealQueue { shared_queue: shared, len: AtomicUsize::new(n), local_capacity: cap, local_queues: v, index: AtomicUsize::new(0) }
}

pub(crate) fn mk_local<'l>(q: &'l OrderedWorkStealQueue<It>, idx: usize, believed: usize, tick: u32) -> OrderedLocalQueue<'l, It> {
    // the real (private) constructor, then the fields the unit controls: a struct literal would stop compiling
    // as soon as the type gains a field
    let l = OrderedLocalQueue::new(q, q.local_queues.get(idx).unwrap());
    l.tick.store(tick, Ordering::Release);
    l.len.store(believed, Ordering::Release);
    l
}

// ---------------------------------------------------------------------------------------------- C06
/// O6.1a: tick() returns (c + 1) mod 2^32 and leaves the counter at the value it returned
#[kani::proof]
#[kani::unwind(4)]
fn q_ordered_tick_contract() {
    let (mut gs, mut s0, mut s1) = (GSlots::empty(), LSlots::empty(), LSlots::empty());
    let q = mk_shared(gs.map(), s0.map(), s1.map());
    let c: u32 = kani::any();
    let a = mk_local(&q, 0, 0, c);
    let r = a.tick();
    kani::assert(r == c.wrapping_add(1), "C06.tick_returns_counter_plus_one_mod_2_32");
    kani::assert(a.tick.load(Ordering::Acquire) == r, "C06.tick_leaves_the_counter_at_the_returned_value");
    kani::cover!(c == u32::MAX, "C06.cover_tick_wraps");
    std::mem::forget(a);
    std::mem::forget(q);
}

/// O5/O3 on the real pop_local (the callee contract used by pop's consultation-order unit): from every well-formed
/// local state it returns the front of the smallest non-empty priority, removes exactly that item, keeps the
/// counter equal to the content; None iff the queue holds nothing.
#[kani::proof]
#[kani::unwind(5)]
fn q_ordered_pop_local_contract() {
    let (mut gs, mut s0, mut s1) = (GSlots::empty(), LSlots::any(2), LSlots::empty());
    let l0 = s0.map();
    let lf = l_front(&l0);
    let x: It = kani::any();
    let (lc, ln) = (l_count(&l0, x), l_items(&l0));
    let k: c_longlong = kani::any();
    let at_k = l_count_at(&l0, k, x);
    let q = mk_shared(gs.map(), l0, s1.map());
    let a = mk_local(&q, 0, ln, 0);
    let r = a.pop_local();
    kani::assert(r == lf.map(|e| e.1), "C05.pop_returns_the_front_of_the_smallest_nonempty_priority");
    let took = if r.is_some() { 1 } else { 0 };
    kani::assert(l_items(a.queue) == ln - took && a.local_len() == ln - took, "C03.local_len_counts_the_items_it_holds");
    kani::assert(l_count(a.queue, x) + (if r == Some(x) { 1 } else { 0 }) == lc, "C03.pop_removes_exactly_the_returned_item");
    if let Some((fp, fv)) = lf {
        kani::assert(l_count_at(a.queue, k, x) + (if k == fp && fv == x { 1 } else { 0 }) == at_k, "C05.items_keep_their_priority");
    }
    kani::cover!(ln == 4, "C05.cover_pop_from_two_full_priorities");
    kani::cover!(ln == 0, "C05.cover_pop_from_empty");
    std::mem::forget(a);
    std::mem::forget(q);
}

/// O6.3: an idle local queue (holds nothing; its counter may be stale, Inv_reach) obtains work that is waiting in a
/// sibling or in the shared queue instead of reporting empty. O3/O5 for the steal: items keep their priority, their
/// relative order, nothing is lost or duplicated. The shared queue's pop is represented by its contract
/// (proved in q_ordered_shared_push_pop): it answers Some exactly when it holds work.
#[kani::proof]
#[kani::unwind(5)]
#[kani::stub(OrderedWorkStealQueue::pop, mirror::MS::pop)]
fn q_ordered_idle_pop_finds_work_start0() { idle_pop_finds_work(0) }
/// the same with the other random start of the victim scan (two local queues: the draw is 0 or 1)
#[kani::proof]
#[kani::unwind(5)]
#[kani::stub(OrderedWorkStealQueue::pop, mirror::MS::pop)]
fn q_ordered_idle_pop_finds_work_start1() { idle_pop_finds_work(1) }
fn idle_pop_finds_work(start: usize) {
    let sv: Option<It> = kani::any(); // what the shared queue holds at its front, if anything
    let (mut gs, mut s0, mut s1) = (GSlots::holding(sv), LSlots::empty(), LSlots::any(2));
    let l1 = s1.map();
    let sf = l_front(&l1);
    kani::assume(sv.is_some() || sf.is_some());
    let x: It = kani::any();
    let k: c_longlong = kani::any();
    let (total_x, total, at_k) = (l_count(&l1, x), l_items(&l1), l_count_at(&l1, k, x));
    let q = mk_shared(gs.map(), s0.map(), l1);
    let believed: usize = kani::any();
    kani::assume(believed <= CAP); // Inv_reach: counter >= content (= 0); a counter never exceeds the capacity
    let c: u32 = kani::any();
    kani::assume(c.wrapping_add(1) % 61 != 0); // on a 61st tick the shared queue is served first: q_ordered_pop_consultation_order
    let a = mk_local(&q, 0, believed, c);
    unsafe { rand::NEXT_CHOICE = start; STUB_SHARED = sv; NORDER = 0; }
    let r = a.pop();
    kani::assert(r.is_some(), "C06.idle_local_queue_obtains_waiting_work");
    let sib = q.local_queues.get(1).unwrap();
    let shared_untouched = unsafe { NORDER } == 0 && g_items(&q.shared_queue) == (if sv.is_some() { 1 } else { 0 });
    if shared_untouched {
        // served by a steal (the shared queue was not consulted): the thief gets the victim's most urgent item,
        // whatever else moved kept its priority, nothing was lost or duplicated
        let (sp, fv) = sf.unwrap_or((0, 0));
        kani::assert(sf.is_some() && r == Some(fv), "C05.steal_serves_the_victims_most_urgent_item_first");
        kani::assert(l_count(a.queue, x) + l_count(sib, x) + (if fv == x { 1 } else { 0 }) == total_x, "C03.steal_neither_loses_nor_duplicates_an_item");
        kani::assert(l_items(a.queue) + l_items(sib) + 1 == total, "C03.steal_neither_loses_nor_duplicates_an_item");
        kani::assert(l_count_at(a.queue, k, x) + l_count_at(sib, k, x) + (if k == sp && fv == x { 1 } else { 0 }) == at_k, "C05.items_keep_their_priority");
        kani::assert(a.local_len() >= l_items(a.queue), "C04.local_counter_never_below_content");
        kani::assert(l_buckets_have_capacity(a.queue, CAP), "C05.every_bucket_can_hold_the_local_capacity");
    } else {
        kani::assert(r == sv, "C06.idle_local_queue_falls_back_to_the_shared_queue");
        kani::assert(l_count(a.queue, x) + l_count(sib, x) == total_x && l_items(a.queue) + l_items(sib) == total, "C03.steal_neither_loses_nor_duplicates_an_item");
    }
    kani::cover!(sf.is_some() && believed == 0 && shared_untouched, "C06.cover_steal_from_sibling");
    kani::cover!(sf.is_some() && believed == CAP && shared_untouched, "C06.cover_stale_counter_with_sibling_work");
    kani::cover!(sf.is_none(), "C06.cover_fallback_to_shared");
    std::mem::forget(a);
    std::mem::forget(q);
}

// ---------------------------------------------------------------------------------------------- C05 / C03 / C04: push
/// From every Inv_reach state a local push returns (unwinding assertions on: O4), keeps every item (O3), appends
/// the new item behind its equals (O5), hands whatever overflows to the shared queue under its own priority (O5)
/// and leaves the counter as Inv_reach demands. The shared queue's push is represented by its contract (proved in
/// q_ordered_shared_push_pop: appends under the given priority and counts): here it records what it is handed.
/// capacity of the push unit: 4 (a stale counter with SOME items left, fewer than half, needs more than capacity 2)
pub(crate) const PCAP: usize = 4;
#[kani::proof]
#[kani::unwind(7)]
#[kani::stub(OrderedWorkStealQueue::push_with_priority, mirror::MS::push_with_priority)]
fn q_ordered_local_push() {
    let (mut gs, mut s0, mut s1) = (GSlots::empty(), LSlots::any_cap(PCAP), LSlots::empty());
    let l0 = s0.map();
    let x: It = kani::any();
    let k: c_longlong = kani::any(); // witness priority: every item keeps its key
    let (total_x, content, at_k, lf) = (l_count(&l0, x), l_items(&l0), l_count_at(&l0, k, x), l_front(&l0));
    let q = mk_shared_cap(PCAP, gs.map(), l0, s1.map());
    let believed: usize = kani::any();
    kani::assume(content <= PCAP && believed >= content && believed <= PCAP);
    let a = mk_local(&q, 0, believed, 0);
    let p: c_longlong = kani::any();
    let v: It = kani::any();
    unsafe { NHANDED = 0; }
    a.push_with_priority(p, v);
    // what reached the shared queue: through its push (recorded by the contract stub) or, should the code under
    // test fill the shared map by another route, what the real shared map holds (empty before the call)
    let (hx, hk, hn) = unsafe { (handed_count(None, x) + g_count(&q.shared_queue, x), handed_count(Some(k), x) + g_count_at(&q.shared_queue, k, x), NHANDED + g_items(&q.shared_queue)) };
    kani::assert(l_items(a.queue) + hn == content + 1, "C03.push_adds_exactly_one_item");
    kani::assert(l_count(a.queue, x) + hx == total_x + (if v == x { 1 } else { 0 }), "C03.push_neither_loses_nor_duplicates_an_item");
    kani::assert(q.len() == g_items(&q.shared_queue), "C03.shared_len_counts_the_items_it_holds");
    kani::assert(l_count_at(a.queue, k, x) + hk == at_k + (if k == p && v == x { 1 } else { 0 }), "C05.items_keep_their_priority");
    kani::assert(a.local_len() >= l_items(a.queue) && a.local_len() <= PCAP, "C04.local_counter_never_below_content");
    kani::assert(l_buckets_have_capacity(a.queue, PCAP), "C05.every_bucket_can_hold_the_local_capacity");
    // the new item is the newest of its priority in the queue it went to
    let last = unsafe { if NHANDED > 0 { Some(HANDED[NHANDED - 1]) } else { None } };
    kani::assert(l_back_at(a.queue, p) == Some(v) || last == Some((p, v)) || g_back_at(&q.shared_queue, p) == Some(v), "C05.push_appends_behind_its_equals");
    if believed < PCAP {
        kani::assert(hn == 0, "C05.no_overflow_below_capacity");
        if let Some((fp, fv)) = lf { kani::assert(l_front(a.queue) == Some(if p < fp { (p, v) } else { (fp, fv) }), "C05.push_does_not_reorder_waiting_items"); }
    }
    kani::cover!(believed == PCAP && content == PCAP, "C05.cover_overflow_with_full_queue");
    kani::cover!(believed == PCAP && content == 0, "C04.cover_stale_counter_on_push");
    kani::cover!(believed < PCAP, "C05.cover_plain_push");
    kani::cover!(believed == PCAP && content == 1 && hn == 2, "C04.cover_stale_counter_with_one_item_left");
    std::mem::forget(a);
    std::mem::forget(q);
}

/// shared queue: push appends behind its equals and counts; pop serves the most urgent priority first, FIFO inside
#[kani::proof]
#[kani::unwind(5)]
fn q_ordered_shared_push_pop() {
    let (mut gs, mut s0, mut s1) = (GSlots::any(2), LSlots::empty(), LSlots::empty());
    let g = gs.map();
    let x: It = kani::any();
    let gx = g_count(&g, x);
    let n = g_items(&g);
    let gf = g_front(&g);
    let q = mk_shared(g, s0.map(), s1.map());
    if kani::any() {
        let p: c_longlong = kani::any();
        let v: It = kani::any();
        q.push_with_priority(p, v);
        kani::assert(q.len() == n + 1 && g_items(&q.shared_queue) == n + 1, "C03.shared_len_counts_the_items_it_holds");
        kani::assert(g_count(&q.shared_queue, x) == gx + (if v == x { 1 } else { 0 }), "C03.push_neither_loses_nor_duplicates_an_item");
        kani::assert(g_back_at(&q.shared_queue, p) == Some(v), "C05.push_appends_behind_its_equals");
        if let Some((fp, fv)) = gf { kani::assert(g_front(&q.shared_queue) == Some(if p < fp { (p, v) } else { (fp, fv) }), "C05.push_does_not_reorder_waiting_items"); }
    } else {
        let r = q.pop();
        kani::assert(r == gf.map(|e| e.1), "C05.pop_returns_the_front_of_the_smallest_nonempty_priority");
        let took = if r.is_some() { 1 } else { 0 };
        kani::assert(q.len() == n - took && g_items(&q.shared_queue) == n - took, "C03.shared_len_counts_the_items_it_holds");
        kani::assert(g_count(&q.shared_queue, x) + (if r == Some(x) { 1 } else { 0 }) == gx, "C03.pop_removes_exactly_the_returned_item");
        kani::cover!(r.is_some() && n == 4, "C05.cover_pop_from_two_full_priorities");
    }
    std::mem::forget(q);
}

// ---- modular contracts (stubs) for the two callees of pop(): each is proved on the real code by its own unit
// (q_ordered_pop_local_contract, q_ordered_shared_push_pop); at pop()'s call sites only the contract is known.
pub(crate) static mut STUB_LOCAL: Option<It> = None; // what pop_local will answer
pub(crate) static mut STUB_SHARED: Option<It> = None; // what the shared pop will answer
pub(crate) static mut ORDER: [u8; 4] = [0xA1, 0xA2, 0xA3, 0xA4]; // consultation order: 1 = shared, 2 = local
pub(crate) static mut NORDER: usize = 0x7301; // every scalar static: distinct non-zero initialiser, assigned before use (tool note in harness/C16/model.rs)
pub(crate) static mut HANDED: [(c_longlong, It); 4] = [(0x7311, 0xB1), (0x7312, 0xB2), (0x7313, 0xB3), (0x7314, 0xB4)]; // what the shared push was handed, in order
pub(crate) static mut NHANDED: usize = 0x7302;
/// occurrences of x among the recorded hand-overs (under priority k if given)
pub(crate) unsafe fn handed_count(k: Option<c_longlong>, x: It) -> usize {
    let mut n = 0;
    let mut i = 0;
    while i < 4 { if i < NHANDED && HANDED[i].1 == x && (k.is_none() || k == Some(HANDED[i].0)) { n += 1; } i += 1; }
    n
}
pub(crate) fn note(w: u8) { unsafe { if NORDER < 4 { ORDER[NORDER] = w; } NORDER += 1; } }
/// mirror impls: a stub of a generic method needs the same generics layout and names as the original
pub(crate) mod mirror {
    use super::{note, It, STUB_LOCAL, STUB_SHARED, HANDED, NHANDED};
    use crate::common::ordered_work_steal::{OrderedLocalQueue, OrderedWorkStealQueue};
    use std::fmt::Debug;
    fn cast<T>(v: Option<It>) -> Option<T> { assert!(std::mem::size_of::<T>() == std::mem::size_of::<It>()); v.map(|x| unsafe { std::mem::transmute_copy::<It, T>(&x) }) }
    pub(crate) struct ML<'l, T: Debug>(std::marker::PhantomData<&'l T>);
    impl<'l, T: Debug> ML<'l, T> {
        pub(crate) fn pop_local(_q: &OrderedLocalQueue<'l, T>) -> Option<T> { note(2); cast(unsafe { STUB_LOCAL.take() }) }
    }
    pub(crate) struct MS<T: Debug>(std::marker::PhantomData<T>);
    impl<T: Debug> MS<T> {
        pub(crate) fn pop(_q: &OrderedWorkStealQueue<T>) -> Option<T> { note(1); cast(unsafe { STUB_SHARED.take() }) }
        pub(crate) fn push_with_priority(_q: &OrderedWorkStealQueue<T>, priority: std::ffi::c_longlong, item: T) {
            assert!(std::mem::size_of::<T>() == std::mem::size_of::<It>());
            unsafe { assert!(NHANDED < 4, "recorder bound"); HANDED[NHANDED] = (priority, std::mem::transmute_copy::<T, It>(&item)); NHANDED += 1; }
            std::mem::forget(item);
        }
    }
}

/// O6.2 (modular, every tick value): pop consults the shared queue first exactly on every 61st tick and serves its
/// item when it has one; on every other tick the local queue is served first and the shared queue is not touched.
/// With O6.1a/O6.1b: an item waiting in the shared queue is returned within 61 consecutive pops of any local queue.
#[kani::proof]
#[kani::unwind(5)]
#[kani::stub(OrderedLocalQueue::pop_local, mirror::ML::pop_local)]
#[kani::stub(OrderedWorkStealQueue::pop, mirror::MS::pop)]
fn q_ordered_pop_consultation_order() {
    let lv: It = kani::any();
    let sv: Option<It> = kani::any();
    // the real queues hold exactly what the two contract stubs will answer (one local item under any priority,
    // the shared item - if any - under any other or the same priority): a route to either queue that does not go
    // through the stubbed functions finds the same items, and is judged by the result
    let lw: Worker<It> = Worker::new(CAP);
    let _ = lw.push(lv);
    let lp: c_longlong = kani::any();
    let (mut gs, mut s0, mut s1) = (GSlots::holding(sv), LSlots(Some((lp, lw)), None, None), LSlots::empty());
    let q = mk_shared(gs.map(), s0.map(), s1.map());
    let c: u32 = kani::any();
    let a = mk_local(&q, 0, 1, c);
    unsafe { STUB_LOCAL = Some(lv); STUB_SHARED = sv; NORDER = 0; }
    let r = a.pop();
    let sixty_first = c.wrapping_add(1) % 61 == 0;
    // judged by results, not by which helper is called: the real shared map holds what the shared-pop stub answers
    let shared_before = if sv.is_some() { 1 } else { 0 };
    unsafe {
        if sixty_first && sv.is_some() {
            kani::assert(r == sv, "C06.every_61st_pop_serves_the_shared_queue_first");
            kani::assert(STUB_LOCAL == Some(lv) && l_items(a.queue) == 1, "C06.local_queue_untouched_when_shared_is_served");
        } else {
            kani::assert(r == Some(lv), "C06.other_pops_serve_the_local_queue_first");
            kani::assert(g_items(&q.shared_queue) == shared_before, "C06.shared_queue_untouched_when_local_is_served");
        }
        if !sixty_first { kani::assert(ORDER[0] == 2 && NORDER == 1, "C06.shared_queue_not_consulted_between_61st_ticks"); }
        kani::assert(q.len() == g_items(&q.shared_queue), "C03.shared_len_counts_the_items_it_holds");
    }
    std::mem::forget(a); std::mem::forget(q);
}


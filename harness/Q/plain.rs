//! C03 / C04 / C05 (FIFO) / C06 — single-operation obligations on the real WorkStealQueue / LocalQueue
//! (child module of common::work_steal). Same scheme as harness/Q/ordered.rs: states are written directly into the
//! containers, one shared queue and two local queues of capacity CAP, items arbitrary (duplicates allowed).
use super::*;

pub(crate) type It = u8;
pub(crate) const CAP: usize = 2;
const WB: usize = st3::fifo::MAXCAP;
const IB: usize = crossbeam_deque::MAXQ;

fn any_worker() -> Worker<It> {
    let w = Worker::new(CAP);
    let n: usize = kani::any();
    kani::assume(n <= CAP);
    let h: usize = kani::any();
    kani::assume(h < WB);
    let i = w.inner();
    i.head = h;
    let mut k = 0;
    while k < n { let v: It = kani::any(); i.buf[(h + k) % WB] = Some(v); k += 1; }
    i.len = n;
    w
}
fn any_injector(max: usize) -> Injector<It> {
    let q = Injector::new();
    let n: usize = kani::any();
    kani::assume(n <= max);
    let i = q.inner();
    let mut k = 0;
    while k < n { let v: It = kani::any(); i.buf[k] = Some(v); k += 1; }
    i.len = n;
    q
}
fn w_len(w: &Worker<It>) -> usize { w.inner().len }
fn w_at(w: &Worker<It>, k: usize) -> It { let i = w.inner(); i.buf[(i.head + k) % WB].unwrap_or(0) }
fn i_len(q: &Injector<It>) -> usize { q.inner().len }
fn i_at(q: &Injector<It>, k: usize) -> It { let i = q.inner(); i.buf[(i.head + k) % IB].unwrap_or(0) }
fn w_count(w: &Worker<It>, x: It) -> usize { let mut n = 0; let mut k = 0; while k < w_len(w) { if w_at(w, k) == x { n += 1; } k += 1; } n }
fn i_count(q: &Injector<It>, x: It) -> usize { let mut n = 0; let mut k = 0; while k < i_len(q) { if i_at(q, k) == x { n += 1; } k += 1; } n }

/// an injector that really holds what the shared-pop contract stub will answer (see harness/Q/ordered.rs, GSlots::holding)
fn holding(sv: Option<It>) -> Injector<It> { let q = Injector::new(); if let Some(v) = sv { q.push(v); } q }
fn mk_shared(g: Injector<It>, l0: Worker<It>, l1: Worker<It>) -> WorkStealQueue<It> {
    let n = i_len(&g);
    let mut v = VecDeque::with_capacity(2);
    v.push_back(l0);
    v.push_back(l1);
    WorkStealQueue { shared_queue: g, len: AtomicUsize::new(n), local_queues: v, index: AtomicUsize::new(0) }
}
fn mk_local<'l>(q: &'l WorkStealQueue<It>, idx: usize, tick: u32) -> LocalQueue<'l, It> {
    // the real (private) constructor, then the fields the unit controls: a struct literal would stop compiling
    // as soon as the type gains a field
    let l = LocalQueue::new(q, q.local_queues.get(idx).unwrap());
    l.tick.store(tick, Ordering::Release);
    l
}

// the shared pop as a callee contract (proved on the real code in p_shared_push_pop)
static mut STUB_SHARED: Option<It> = None;
static mut SHARED_CALLS: usize = 0x7321; // distinct non-zero initialisers, assigned before use (tool note in harness/C16/model.rs)
static mut LOCAL_LEN_AT_SHARED_CALL: usize = 0x7322;
static mut LOCAL_PTR: *const Worker<It> = std::ptr::null();
mod mirror {
    use super::{It, STUB_SHARED, SHARED_CALLS, LOCAL_PTR, LOCAL_LEN_AT_SHARED_CALL};
    use crate::common::work_steal::WorkStealQueue;
    use std::fmt::Debug;
    fn cast<T>(v: Option<It>) -> Option<T> { assert!(std::mem::size_of::<T>() == std::mem::size_of::<It>()); v.map(|x| unsafe { std::mem::transmute_copy::<It, T>(&x) }) }
    pub(super) struct MS<T: Debug>(std::marker::PhantomData<T>);
    impl<T: Debug> MS<T> {
        pub(super) fn pop(_q: &WorkStealQueue<T>) -> Option<T> {
            unsafe { if SHARED_CALLS == 0 { LOCAL_LEN_AT_SHARED_CALL = (*LOCAL_PTR).inner().len; } SHARED_CALLS += 1; cast(STUB_SHARED.take()) }
        }
    }
}

/// O6.1a: tick() returns (c + 1) mod 2^32 and leaves the counter at the value it returned
#[kani::proof]
#[kani::unwind(4)]
fn p_tick_contract() {
    let q = mk_shared(Injector::new(), Worker::new(CAP), Worker::new(CAP));
    let c: u32 = kani::any();
    let a = mk_local(&q, 0, c);
    let r = a.tick();
    kani::assert(r == c.wrapping_add(1), "C06.tick_returns_counter_plus_one_mod_2_32");
    kani::assert(a.tick.load(Ordering::Acquire) == r, "C06.tick_leaves_the_counter_at_the_returned_value");
    kani::cover!(c == u32::MAX, "C06.cover_tick_wraps");
    std::mem::forget(a);
    std::mem::forget(q);
}

/// O6.2 (every tick value, every non-empty local worker): the shared queue is consulted first exactly on every
/// 61st tick and its item is served when it has one; otherwise the local worker's oldest item is served (FIFO)
/// and the shared queue is not consulted at all.
#[kani::proof]
#[kani::unwind(4)]
#[kani::stub(WorkStealQueue::pop, mirror::MS::pop)]
fn p_pop_consultation_order() {
    let l0 = any_worker();
    kani::assume(w_len(&l0) > 0);
    let (front, ln) = (w_at(&l0, 0), w_len(&l0));
    let x: It = kani::any();
    let lc = w_count(&l0, x);
    let sv: Option<It> = kani::any();
    let q = mk_shared(holding(sv), l0, Worker::new(CAP));
    let c: u32 = kani::any();
    let a = mk_local(&q, 0, c);
    unsafe { STUB_SHARED = sv; SHARED_CALLS = 0; LOCAL_PTR = a.queue; }
    let r = a.pop();
    let sixty_first = c.wrapping_add(1) % 61 == 0;
    // the shared queue's state is observed on the real injector (it holds what the stub answers): a route to the
    // shared queue other than `pop` is then judged by what it does, not by which function it calls
    let shared_left = i_len(&q.shared_queue);
    let shared_before = if sv.is_some() { 1 } else { 0 };
    unsafe {
        if sixty_first && sv.is_some() {
            kani::assert(r == sv, "C06.every_61st_pop_serves_the_shared_queue_first");
            kani::assert(w_len(a.queue) == ln && w_count(a.queue, x) == lc, "C06.local_queue_untouched_when_shared_is_served");
        } else {
            kani::assert(r == Some(front), "C06.other_pops_serve_the_local_queue_first");
            kani::assert(w_len(a.queue) == ln - 1 && w_count(a.queue, x) + (if front == x { 1 } else { 0 }) == lc, "C03.pop_removes_exactly_the_returned_item");
            kani::assert(shared_left == shared_before, "C06.shared_queue_untouched_when_local_is_served");
        }
        if !sixty_first { kani::assert(SHARED_CALLS == 0, "C06.shared_queue_not_consulted_between_61st_ticks"); }
        // the shared counter follows the shared content whichever route was taken (the contract stub changes neither)
        kani::assert(q.len() == i_len(&q.shared_queue), "C03.shared_len_counts_the_items_it_holds");
    }
    std::mem::forget(a);
    std::mem::forget(q);
}

/// shared queue: push appends and counts; pop serves the oldest item and counts
#[kani::proof]
#[kani::unwind(6)]
fn p_shared_push_pop() {
    let g = any_injector(3);
    let x: It = kani::any();
    let (gx, n) = (i_count(&g, x), i_len(&g));
    let front = if n > 0 { Some(i_at(&g, 0)) } else { None };
    let q = mk_shared(g, Worker::new(CAP), Worker::new(CAP));
    if kani::any() {
        let v: It = kani::any();
        q.push(v);
        kani::assert(q.len() == n + 1 && i_len(&q.shared_queue) == n + 1, "C03.shared_len_counts_the_items_it_holds");
        kani::assert(i_count(&q.shared_queue, x) == gx + (if v == x { 1 } else { 0 }), "C03.push_neither_loses_nor_duplicates_an_item");
        kani::assert(i_at(&q.shared_queue, n) == v, "C05.push_appends_behind_its_equals");
        if n > 0 { kani::assert(Some(i_at(&q.shared_queue, 0)) == front, "C05.push_does_not_reorder_waiting_items"); }
    } else {
        let r = q.pop();
        kani::assert(r == front, "C05.pop_returns_the_oldest_item");
        let took = if r.is_some() { 1 } else { 0 };
        kani::assert(q.len() == n - took && i_len(&q.shared_queue) == n - took, "C03.shared_len_counts_the_items_it_holds");
        kani::assert(i_count(&q.shared_queue, x) + (if r == Some(x) { 1 } else { 0 }) == gx, "C03.pop_removes_exactly_the_returned_item");
        kani::cover!(r.is_some() && n == 3, "C05.cover_pop_from_three");
    }
    std::mem::forget(q);
}

/// local push from every state: returns (O4), keeps every item (O3), the new item is the newest of the queue it
/// lands in, the oldest local item stays the next one served (O5)
#[kani::proof]
#[kani::unwind(6)]
fn p_local_push() {
    let g = any_injector(2);
    let l0 = any_worker();
    let x: It = kani::any();
    let total_x = i_count(&g, x) + w_count(&l0, x);
    let total = i_len(&g) + w_len(&l0);
    let (ln, front) = (w_len(&l0), if w_len(&l0) > 0 { Some(w_at(&l0, 0)) } else { None });
    let q = mk_shared(g, l0, Worker::new(CAP));
    let a = mk_local(&q, 0, 0);
    let v: It = kani::any();
    a.push(v);
    kani::assert(i_len(&q.shared_queue) + w_len(a.queue) == total + 1, "C03.push_adds_exactly_one_item");
    kani::assert(i_count(&q.shared_queue, x) + w_count(a.queue, x) == total_x + (if v == x { 1 } else { 0 }), "C03.push_neither_loses_nor_duplicates_an_item");
    kani::assert(q.len() == i_len(&q.shared_queue), "C03.shared_len_counts_the_items_it_holds");
    if ln < CAP {
        kani::assert(w_len(a.queue) == ln + 1 && w_at(a.queue, ln) == v, "C05.push_appends_behind_its_equals");
        if let Some(f) = front { kani::assert(w_at(a.queue, 0) == f, "C05.push_does_not_reorder_waiting_items"); }
    } else {
        kani::assert(i_at(&q.shared_queue, i_len(&q.shared_queue) - 1) == v, "C05.push_appends_behind_its_equals");
    }
    kani::cover!(ln == CAP, "C05.cover_overflow_with_full_queue");
    kani::cover!(ln < CAP, "C05.cover_plain_push");
    std::mem::forget(a);
    std::mem::forget(q);
}

/// O6.3: an idle local queue obtains work waiting in a sibling or in the shared queue instead of reporting empty;
/// a steal keeps the order and neither loses nor duplicates an item
#[kani::proof]
#[kani::unwind(6)]
#[kani::stub(WorkStealQueue::pop, mirror::MS::pop)]
fn p_idle_pop_finds_work_start0() { idle(0) }
#[kani::proof]
#[kani::unwind(6)]
#[kani::stub(WorkStealQueue::pop, mirror::MS::pop)]
fn p_idle_pop_finds_work_start1() { idle(1) }
fn idle(start: usize) {
    let l1 = any_worker();
    let sn = w_len(&l1);
    let sfront = if sn > 0 { Some(w_at(&l1, 0)) } else { None };
    let sv: Option<It> = kani::any();
    kani::assume(sv.is_some() || sn > 0);
    let x: It = kani::any();
    let total_x = w_count(&l1, x);
    let q = mk_shared(holding(sv), Worker::new(CAP), l1);
    let c: u32 = kani::any();
    kani::assume(c.wrapping_add(1) % 61 != 0);
    let a = mk_local(&q, 0, c);
    unsafe { rand::NEXT_CHOICE = start; STUB_SHARED = sv; SHARED_CALLS = 0; LOCAL_PTR = a.queue; }
    let r = a.pop();
    kani::assert(r.is_some(), "C06.idle_local_queue_obtains_waiting_work");
    let sib = q.local_queues.get(1).unwrap();
    let shared_untouched = unsafe { SHARED_CALLS } == 0 && i_len(&q.shared_queue) == (if sv.is_some() { 1 } else { 0 });
    if shared_untouched {
        kani::assert(r == sfront, "C05.steal_serves_the_victims_oldest_item_first");
        kani::assert(w_len(a.queue) + w_len(sib) + 1 == sn, "C03.steal_neither_loses_nor_duplicates_an_item");
        kani::assert(w_count(a.queue, x) + w_count(sib, x) + (if r == Some(x) { 1 } else { 0 }) == total_x, "C03.steal_neither_loses_nor_duplicates_an_item");
    } else {
        kani::assert(r == sv && w_len(a.queue) + w_len(sib) == sn && w_count(a.queue, x) + w_count(sib, x) == total_x, "C06.idle_local_queue_falls_back_to_the_shared_queue");
    }
    kani::cover!(sn == 2 && shared_untouched, "C06.cover_steal_from_sibling");
    kani::cover!(sn == 0, "C06.cover_fallback_to_shared");
    std::mem::forget(a);
    std::mem::forget(q);
}

//! C21 — hooked close: ends with OS interest empty and no record, so a reused number starts clean.
use super::*;
use crate::net::__verif_harness_c21_bridge_rs::c21;

#[derive(Debug, Default)]
struct Kernel {}
impl CloseSyscall for Kernel {
    extern "C" fn close(&self, _f: Option<&extern "C" fn(c_int) -> c_int>, fd: c_int) -> c_int { c21::kernel_close(fd); 0 }
}
/// EventLoops::del_event with one event loop == that loop's selector.del_event (net/mod.rs, event_loop.rs)
fn del_event_stub(fd: c_int) -> std::io::Result<()> { c21::sel_del_event(fd) }
/// waits are accepted for any pollable descriptor (pipes, eventfds): the close hook must clean up whatever kind it is
fn is_socket_any(_fd: c_int) -> bool { kani::any() }

#[kani::proof]
#[kani::unwind(4)]
#[kani::stub(crate::net::EventLoops::del_event, del_event_stub)]
#[kani::stub(crate::syscall::is_socket, is_socket_any)]
fn c21_close_step() {
    let st = c21::any_state_with_inv();
    let f: usize = kani::any(); kani::assume(f < 2);
    let fd = c21::FDS[f];
    let nio: NioCloseSyscall<Kernel> = NioCloseSyscall::default();
    let r = nio.close(None, fd);
    kani::assert(r == 0, "C21.close_returns_kernel_answer");
    kani::assert(c21::recorded(fd) == 0, "C21.close_leaves_no_record");
    kani::assert(c21::os_interest(fd) == 0, "C21.close_leaves_no_os_interest");
    kani::assert(c21::recorded(c21::FDS[1 - f]) == st[1 - f] && c21::os_interest(c21::FDS[1 - f]) == st[1 - f], "C21.close_frame_other_fd");
    // the reused number: a first wait registers it afresh
    let tok: u64 = kani::any();
    let r = c21::sel_add_read_event(fd, tok);
    let ok = r.is_ok(); std::mem::forget(r);
    kani::assert(ok && c21::os_interest(fd) == 1 && c21::recorded(fd) == 1, "C21.reused_fd_registers_afresh");
    kani::cover!(st[f] == 3, "C21.cover_close_rw");
}

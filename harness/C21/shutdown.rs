//! C21 — hooked shutdown: removes exactly the interest that can no longer fire; EINVAL for a bad `how`.
use super::*;
use crate::net::__verif_harness_c21_bridge_rs::c21;

#[derive(Debug, Default)]
struct Kernel {}
static mut INNER_CALLS: usize = 0;
impl ShutdownSyscall for Kernel {
    extern "C" fn shutdown(&self, _f: Option<&extern "C" fn(c_int, c_int) -> c_int>, _fd: c_int, _how: c_int) -> c_int { unsafe { INNER_CALLS += 1; } 0 }
}
fn del_event_stub(fd: c_int) -> std::io::Result<()> { c21::sel_del_event(fd) }
fn del_read_event_stub(fd: c_int) -> std::io::Result<()> { c21::sel_del_read_event(fd) }
fn del_write_event_stub(fd: c_int) -> std::io::Result<()> { c21::sel_del_write_event(fd) }

#[kani::proof]
#[kani::unwind(4)]
#[kani::stub(crate::net::EventLoops::del_event, del_event_stub)]
#[kani::stub(crate::net::EventLoops::del_read_event, del_read_event_stub)]
#[kani::stub(crate::net::EventLoops::del_write_event, del_write_event_stub)]
fn c21_shutdown_step() {
    let st = c21::any_state_with_inv();
    let f: usize = kani::any(); kani::assume(f < 2);
    let fd = c21::FDS[f];
    let how: c_int = kani::any();
    let nio: NioShutdownSyscall<Kernel> = NioShutdownSyscall::default();
    unsafe { *libc::__errno_location() = 0; }
    let r = nio.shutdown(None, fd, how);
    let want = if how == libc::SHUT_RD { st[f] & !1 } else if how == libc::SHUT_WR { st[f] & !2 } else if how == libc::SHUT_RDWR { 0 } else { st[f] };
    if how == libc::SHUT_RD || how == libc::SHUT_WR || how == libc::SHUT_RDWR {
        kani::assert(r == 0 && unsafe { INNER_CALLS } == 1, "C21.shutdown_reaches_kernel");
    } else {
        kani::assert(r == -1 && unsafe { *libc::__errno_location() } == libc::EINVAL && unsafe { INNER_CALLS } == 0, "C21.shutdown_bad_how_is_einval");
    }
    kani::assert(c21::recorded(fd) == want && c21::os_interest(fd) == want, "C21.shutdown_interest_as_specified");
    kani::assert(c21::inv(), "C21.inv_after_shutdown");
    kani::assert(c21::recorded(c21::FDS[1 - f]) == st[1 - f], "C21.shutdown_frame_other_fd");
    kani::cover!(how == libc::SHUT_RD && st[f] == 3, "C21.cover_shut_rd_from_rw");
}

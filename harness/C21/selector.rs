//! C21 — OS readiness interest matches outstanding waits (one selector). Child of net::selector.
//! Abstract state per descriptor: in READABLE_RECORDS?, in WRITABLE_RECORDS?, OS interest in {0,R,W,RW}.
//! Inv(fd): OS interest(fd) == {R if read-recorded} | {W if write-recorded}.
//! Step obligations: for every state with Inv on two descriptors, every operation on one of them, every
//! token: the operation succeeds, records change exactly as specified, Inv holds on BOTH descriptors.
use super::*;
pub(crate) use crate::net::selector::mio_adapter::Poller;
use mio::Interest as MioInterest;

pub(crate) const FDS: [c_int; 2] = [5, 9];
pub(crate) static mut POLLER: *const Poller = std::ptr::null();

pub(crate) fn poller() -> &'static Poller { unsafe { &*POLLER } }

pub(crate) fn os_interest(fd: c_int) -> u8 {
    let t = poller().registry().raw();
    let mut i = 0; let mut bits = 0u8;
    while i < mio::MAXREG { if let Some(r) = &t[i] { if r.fd == fd { bits = r.interest.bits(); } } i += 1; }
    bits
}

pub(crate) fn recorded(fd: c_int) -> u8 {
    (if READABLE_RECORDS.contains(&fd) { 1 } else { 0 }) | (if WRITABLE_RECORDS.contains(&fd) { 2 } else { 0 })
}

pub(crate) fn inv() -> bool { os_interest(FDS[0]) == recorded(FDS[0]) && os_interest(FDS[1]) == recorded(FDS[1]) }

/// kernel side of close(fd): the descriptor silently leaves every epoll set
pub(crate) fn kernel_close(fd: c_int) {
    let t = poller().registry().raw();
    let mut i = 0;
    while i < mio::MAXREG { if let Some(r) = &t[i] { if r.fd == fd { t[i] = None; } } i += 1; }
}

/// any state satisfying Inv on both descriptors (built through the shim and the records directly)
pub(crate) fn any_state_with_inv() -> [u8; 2] {
    let p: &'static Poller = Box::leak(Box::new(Poller::new().unwrap()));
    unsafe { POLLER = p; }
    let mut st = [0u8; 2];
    let mut f = 0;
    while f < 2 {
        let s: u8 = kani::any(); kani::assume(s <= 3);
        st[f] = s;
        let fd = FDS[f];
        if s != 0 {
            let tok0: u64 = kani::any();
            let i = match s { 1 => MioInterest::READABLE, 2 => MioInterest::WRITABLE, _ => MioInterest::READABLE.add(MioInterest::WRITABLE) };
            let r = p.registry().register(&mut mio::unix::SourceFd(&fd), mio::Token(tok0 as usize), i);
            std::mem::forget(r);
            // the token records of a recorded interest may or may not still be there (select() consumes them)
            if s & 1 != 0 { let _ = READABLE_RECORDS.insert(fd); if kani::any() { let _ = READABLE_TOKEN_RECORDS.insert(fd, tok0); } }
            if s & 2 != 0 { let _ = WRITABLE_RECORDS.insert(fd); if kani::any() { let _ = WRITABLE_TOKEN_RECORDS.insert(fd, tok0); } }
        }
        f += 1;
    }
    st
}

pub(crate) fn sel_del_event(fd: c_int) -> std::io::Result<()> { poller().del_event(fd) }
pub(crate) fn sel_del_read_event(fd: c_int) -> std::io::Result<()> { poller().del_read_event(fd) }
pub(crate) fn sel_del_write_event(fd: c_int) -> std::io::Result<()> { poller().del_write_event(fd) }
pub(crate) fn sel_add_read_event(fd: c_int, tok: u64) -> std::io::Result<()> { poller().add_read_event(fd, tok) }

pub(crate) fn spec_after(op: u8, s: u8) -> u8 {
    match op { 0 => s | 1, 1 => s | 2, 2 => 0, 3 => s & !1, _ => s & !2 }
}

#[kani::proof]
#[kani::unwind(4)]
fn c21_step() {
    let st = any_state_with_inv();
    kani::assert(inv(), "C21.inv_before");
    let f: usize = kani::any(); kani::assume(f < 2);
    let op: u8 = kani::any(); kani::assume(op <= 4);
    let tok: u64 = kani::any();
    let fd = FDS[f];
    let p = poller();
    let r = match op {
        0 => p.add_read_event(fd, tok),
        1 => p.add_write_event(fd, tok),
        2 => p.del_event(fd),
        3 => p.del_read_event(fd),
        _ => p.del_write_event(fd),
    };
    let ok = r.is_ok(); std::mem::forget(r);
    kani::assert(ok, "C21.op_ok");
    kani::assert(inv(), "C21.inv_after");
    kani::assert(recorded(fd) == spec_after(op, st[f]), "C21.records_as_specified");
    kani::assert(os_interest(fd) == spec_after(op, st[f]), "C21.os_interest_is_union_of_outstanding");
    kani::assert(recorded(FDS[1 - f]) == st[1 - f] && os_interest(FDS[1 - f]) == st[1 - f], "C21.frame_other_fd");
    kani::cover!(op == 3 && st[f] == 3, "C21.cover_del_read_from_rw");
    kani::cover!(op == 0 && st[f] == 2, "C21.cover_add_read_to_w");
    kani::cover!(op == 2 && st[f] == 3, "C21.cover_del_event_from_rw");
}

/// O21.err: if the OS call fails (any errno) records and OS interest are unchanged.
#[kani::proof]
#[kani::unwind(4)]
fn c21_step_os_failure() {
    let st = any_state_with_inv();
    let f: usize = kani::any(); kani::assume(f < 2);
    let op: u8 = kani::any(); kani::assume(op <= 4);
    let tok: u64 = kani::any();
    let fd = FDS[f];
    let p = poller();
    let e: i32 = kani::any(); kani::assume(e == libc::EPERM || e == libc::ENOMEM || e == libc::EBADF);
    unsafe { mio::FAIL_ALL = e; }
    let r = match op {
        0 => p.add_read_event(fd, tok),
        1 => p.add_write_event(fd, tok),
        2 => p.del_event(fd),
        3 => p.del_read_event(fd),
        _ => p.del_write_event(fd),
    };
    let ok = r.is_ok(); std::mem::forget(r);
    unsafe { mio::FAIL_ALL = 0; }
    let noop = spec_after(op, st[f]) == st[f];
    kani::assert(ok == noop, "C21.os_failure_is_reported_unless_nothing_to_do");
    kani::assert(inv(), "C21.inv_after_os_failure");
    kani::assert(recorded(fd) == st[f] && os_interest(fd) == st[f], "C21.os_failure_leaves_state_unchanged");
    kani::cover!(!ok, "C21.cover_os_failure_seen");
}

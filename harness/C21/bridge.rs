//! C21 — bridge: makes the selector model (a child of the private module net::selector) nameable from
//! syscall::unix::{close, shutdown} harnesses. Pure re-export, no logic.
pub(crate) use super::selector::__verif_harness_c21_selector_rs as c21;

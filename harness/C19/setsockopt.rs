//! C19 — O19.setsockopt: from any state with Inv, setsockopt with any level/name/value and any kernel answer
//! never panics, keeps Inv for every descriptor and option, and the limit applied afterwards is
//! limit(current option). Child of syscall::unix::setsockopt (sees the private NioSetsockoptSyscall).
use super::*;
use crate::syscall::unix::__verif_harness_c19_model_rs::*;
use crate::syscall::{recv_time_limit, send_time_limit};

/// scripted kernel below the NIO layer: the call succeeds or fails (harness's choice); on success the
/// kernel stores the option value
#[derive(Debug, Default)]
struct Kernel {}
static mut KERNEL_ANSWER: c_int = 0;
impl SetsockoptSyscall for Kernel {
    extern "C" fn setsockopt(&self, _f: Option<&extern "C" fn(c_int, c_int, c_int, *const c_void, socklen_t) -> c_int>,
        socket: c_int, level: c_int, name: c_int, value: *const c_void, _len: socklen_t) -> c_int {
        let r = unsafe { KERNEL_ANSWER };
        if r == 0 && level == libc::SOL_SOCKET && (name == libc::SO_RCVTIMEO || name == libc::SO_SNDTIMEO) {
            unsafe { OPT[idx(socket)][if name == libc::SO_RCVTIMEO { 0 } else { 1 }] = *value.cast::<timeval>(); }
        }
        r
    }
}

#[kani::proof]
#[kani::unwind(4)]
#[kani::stub(crate::syscall::unix::get_time_limit, lim_stub)]
fn c19_setsockopt_step() {
    any_state_with_inv();
    let f: usize = kani::any(); kani::assume(f < 2);
    let which: u8 = kani::any(); kani::assume(which < 4);
    let (level, name) = match which {
        0 => (libc::SOL_SOCKET, libc::SO_RCVTIMEO),
        1 => (libc::SOL_SOCKET, libc::SO_SNDTIMEO),
        2 => (libc::SOL_SOCKET, libc::SO_KEEPALIVE),
        _ => (libc::IPPROTO_TCP, libc::SO_RCVTIMEO), // same option number at another level
    };
    let ans: c_int = if kani::any() { 0 } else { -1 };
    unsafe { KERNEL_ANSWER = ans; }
    let before = snapshot();
    let tv = any_tv();
    let nio: NioSetsockoptSyscall<Kernel> = NioSetsockoptSyscall::default();
    let r = nio.setsockopt(None, FDS[f], level, name, std::ptr::addr_of!(tv).cast(), 16);
    kani::assert(r == ans, "C19.setsockopt_returns_kernel_answer");
    kani::assert(inv_holds(), "C19.inv_after_setsockopt");
    let after = snapshot();
    let mut ff = 0;
    while ff < 2 { let mut kk = 0; while kk < 2 {
        let touched = ff == f && ans == 0 && ((which == 0 && kk == 0) || (which == 1 && kk == 1));
        if !touched { kani::assert(after[ff][kk] == before[ff][kk], "C19.frame_setsockopt"); }
        kk += 1; } ff += 1; }
    kani::assert(recv_time_limit(FDS[f]) == lim_stub(unsafe { &OPT[f][0] }), "C19.recv_limit_eq_option_after_setsockopt");
    kani::assert(send_time_limit(FDS[f]) == lim_stub(unsafe { &OPT[f][1] }), "C19.send_limit_eq_option_after_setsockopt");
    kani::cover!(which == 0 && ans == 0 && before[f][0].is_some(), "C19.cover_set_when_cache_present");
    kani::cover!(which == 1 && ans == 0 && before[f][1].is_none(), "C19.cover_set_when_cache_absent");
}

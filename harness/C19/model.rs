//! C19 — kernel model and abstract state shared by the C19 harness modules (child of syscall::unix).
//! Per descriptor (two descriptors, so frame conditions can be stated) the kernel holds the two timeout
//! options; the crate holds a cache entry per option that is absent or present.
//! Inv(fd, kind): cache present  ==>  cached value == limit(kernel option value).
use super::*;
use std::ffi::c_void;
use libc::{socklen_t, timeval};

pub(crate) const FDS: [c_int; 2] = [5, 9];
pub(crate) static mut OPT: [[timeval; 2]; 2] = [[timeval { tv_sec: 0, tv_usec: 0 }; 2]; 2]; // [fd index][0 = RCV, 1 = SND]

pub(crate) fn idx(fd: c_int) -> usize { if fd == FDS[0] { 0 } else { 1 } }

/// kernel: getsockopt(SO_RCVTIMEO / SO_SNDTIMEO) returns the current option value of a live socket
#[no_mangle]
pub unsafe extern "C" fn getsockopt(fd: c_int, level: c_int, name: c_int, value: *mut c_void, len: *mut socklen_t) -> c_int {
    if level == libc::SOL_SOCKET && (name == libc::SO_RCVTIMEO || name == libc::SO_SNDTIMEO) && (fd == FDS[0] || fd == FDS[1]) {
        *value.cast::<timeval>() = OPT[idx(fd)][if name == libc::SO_RCVTIMEO { 0 } else { 1 }];
        *len = std::mem::size_of::<timeval>() as socklen_t;
        0
    } else {
        -1
    }
}

/// Injective, multiplication-free stand-in for get_time_limit on the assumed timeval domain (design rule (i):
/// C19 is about WHICH option value the cache tracks; the arithmetic of get_time_limit is O28.3).
pub(crate) fn lim_stub(tv: &timeval) -> u64 {
    if tv.tv_sec == 0 && tv.tv_usec == 0 { u64::MAX } else { ((tv.tv_sec as u64) << 20) | (tv.tv_usec as u64) }
}

pub(crate) fn any_tv() -> timeval {
    let s: i64 = kani::any();
    let u: i64 = kani::any();
    kani::assume(s >= 0 && s < (1 << 40) && u >= 0 && u < 1_000_000);
    timeval { tv_sec: s, tv_usec: u }
}

pub(crate) fn cache(kind: usize) -> &'static DashMap<c_int, u64> { if kind == 0 { &RECV_TIME_LIMIT } else { &SEND_TIME_LIMIT } }

pub(crate) fn cached(fd: c_int, kind: usize) -> Option<u64> { cache(kind).get(&fd).map(|v| *v.value()) }

/// builds an arbitrary state satisfying Inv: any option values, each of the four cache entries absent or consistent
pub(crate) fn any_state_with_inv() {
    let keep: usize = getsockopt as usize;
    assert!(keep != 0);
    let mut f = 0;
    while f < 2 {
        let mut k = 0;
        while k < 2 {
            let tv = any_tv();
            unsafe { OPT[f][k] = tv; }
            if kani::any() { let _ = cache(k).insert(FDS[f], lim_stub(&tv)); }
            k += 1;
        }
        f += 1;
    }
}

pub(crate) fn inv_holds() -> bool {
    let mut ok = true;
    let mut f = 0;
    while f < 2 {
        let mut k = 0;
        while k < 2 {
            if let Some(v) = cached(FDS[f], k) { if v != lim_stub(unsafe { &OPT[f][k] }) { ok = false; } }
            k += 1;
        }
        f += 1;
    }
    ok
}

pub(crate) fn snapshot() -> [[Option<u64>; 2]; 2] {
    [[cached(FDS[0], 0), cached(FDS[0], 1)], [cached(FDS[1], 0), cached(FDS[1], 1)]]
}

/// O19.limit: from any state with Inv, the limit a hooked call applies is limit(current option); Inv afterwards;
/// nothing but the queried entry changes (frame).
#[kani::proof]
#[kani::unwind(4)]
#[kani::stub(crate::syscall::unix::get_time_limit, lim_stub)]
fn c19_time_limit_step() {
    any_state_with_inv();
    let f: usize = kani::any(); kani::assume(f < 2);
    let k: usize = kani::any(); kani::assume(k < 2);
    let before = snapshot();
    let r = if k == 0 { recv_time_limit(FDS[f]) } else { send_time_limit(FDS[f]) };
    kani::assert(r == lim_stub(unsafe { &OPT[f][k] }), "C19.limit_eq_current_option");
    kani::assert(inv_holds(), "C19.inv_after_time_limit");
    let after = snapshot();
    let mut ff = 0;
    while ff < 2 { let mut kk = 0; while kk < 2 {
        if ff != f || kk != k { kani::assert(after[ff][kk] == before[ff][kk], "C19.frame_time_limit"); }
        kk += 1; } ff += 1; }
    kani::cover!(before[f][k].is_none(), "C19.cover_lazy_fill");
    kani::cover!(before[f][k].is_some(), "C19.cover_cache_hit");
    kani::cover!(r == u64::MAX, "C19.cover_zero_means_unlimited");
}

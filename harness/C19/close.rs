//! C19 — O19.close: closing a descriptor ends the socket; the number may be reused by a fresh socket whose
//! options are the defaults (0 = no timeout). From any state with Inv, after the hooked close Inv must hold
//! against the fresh socket's options, i.e. no stale cache entry survives. Child of syscall::unix::close.
use super::*;
use crate::syscall::unix::__verif_harness_c19_model_rs::*;
use crate::syscall::{recv_time_limit, send_time_limit};

#[derive(Debug, Default)]
struct Kernel {}
impl CloseSyscall for Kernel {
    extern "C" fn close(&self, _f: Option<&extern "C" fn(c_int) -> c_int>, fd: c_int) -> c_int {
        // the descriptor number now denotes no socket; the next socket() that returns it has default options
        unsafe { OPT[idx(fd)] = [libc::timeval { tv_sec: 0, tv_usec: 0 }; 2]; }
        0
    }
}
/// removing the readiness interest may fail (with several event loops the descriptor is registered with one of
/// them only; the others answer ENOENT): either answer, the cached limits must not survive the close
fn del_event_stub(_fd: c_int) -> std::io::Result<()> { if kani::any() { Ok(()) } else { Err(std::io::ErrorKind::NotFound.into()) } }
/// the hooked close is not told what kind of descriptor it closes: either answer
fn is_socket_any(_fd: c_int) -> bool { kani::any() }

#[kani::proof]
#[kani::unwind(4)]
#[kani::stub(crate::syscall::unix::get_time_limit, lim_stub)]
#[kani::stub(crate::net::EventLoops::del_event, del_event_stub)]
#[kani::stub(crate::syscall::is_socket, is_socket_any)]
fn c19_close_step() {
    any_state_with_inv();
    let f: usize = kani::any(); kani::assume(f < 2);
    let before = snapshot();
    let nio: NioCloseSyscall<Kernel> = NioCloseSyscall::default();
    let r = nio.close(None, FDS[f]);
    kani::assert(r == 0, "C19.close_returns_kernel_answer");
    kani::assert(inv_holds(), "C19.inv_after_close_no_stale_entry");
    let after = snapshot();
    let o = 1 - f;
    kani::assert(after[o][0] == before[o][0] && after[o][1] == before[o][1], "C19.frame_close_other_fd");
    // the reused number starts with no limit
    kani::assert(recv_time_limit(FDS[f]) == u64::MAX, "C19.reused_fd_recv_unlimited");
    kani::assert(send_time_limit(FDS[f]) == u64::MAX, "C19.reused_fd_send_unlimited");
    kani::cover!(before[f][0].is_some() && before[f][0] != Some(u64::MAX), "C19.cover_close_with_cached_limit");
}

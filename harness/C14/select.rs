//! C14 / O14.2 + O14.3 — select(timeval): with nothing ready returns 0 only after the waits it requested cover the
//! requested time IN MICROSECONDS (not less; less than one millisecond more: the hook works in whole
//! milliseconds); negative fields are EINVAL as for the native call; NULL never gives up.
use super::*;
use crate::syscall::unix::__verif_harness_c14_model_rs::*;
use std::time::Duration;

#[derive(Debug, Default)]
struct NothingReady {}
impl SelectSyscall for NothingReady {
    extern "C" fn select(&self, _f: Option<&extern "C" fn(c_int, *mut fd_set, *mut fd_set, *mut fd_set, *mut timeval) -> c_int>,
        _n: c_int, _r: *mut fd_set, _w: *mut fd_set, _e: *mut fd_set, _t: *mut timeval) -> c_int { 0 }
}

#[kani::proof]
#[kani::unwind(14)]
#[kani::stub(crate::net::EventLoops::wait_event, wait_event_stub)]
fn c14_select_timeout() {
    let usec: i64 = kani::any();
    kani::assume(usec >= 0 && usec <= 143_000); // 143 ms = MAX_CALLS rounds
    let mut tv = timeval { tv_sec: 0, tv_usec: usec };
    let nio: NioSelectSyscall<NothingReady> = NioSelectSyscall::default();
    let r = nio.select(None, 0, std::ptr::null_mut(), std::ptr::null_mut(), std::ptr::null_mut(), &raw mut tv);
    kani::assert(r == 0, "C14.select_times_out_with_0");
    let want = (usec as u128) * 1_000;
    kani::assert(unsafe { WAITED_NS } >= want, "C14.select_never_waits_less_than_requested");
    kani::assert(unsafe { WAITED_NS } < want + 1_000_000, "C14.select_waits_no_more_than_requested_plus_1ms");
    kani::cover!(usec == 143_000 && unsafe { WAIT_CALLS } == MAX_CALLS, "C14.cover_select_143ms");
}

#[kani::proof]
#[kani::unwind(14)]
#[kani::stub(crate::net::EventLoops::wait_event, wait_event_stub)]
fn c14_select_seconds() {
    // long requests: the first waits requested are 1, 2, 4, 8, 16, 16 ... ms; after MAX_CALLS rounds at most
    // 1+2+4+8+16*8 = 143 ms have been requested, so a request of more than 143 ms cannot have returned
    // every positive number of seconds up to i64::MAX (the maximal request) and every non-negative tv_usec
    let sec: i64 = kani::any();
    let usec: i64 = kani::any();
    kani::assume(sec >= 0 && usec >= 0 && (sec >= 1 || usec > 143_000));
    let mut tv = timeval { tv_sec: sec, tv_usec: usec };
    let nio: NioSelectSyscall<NothingReady> = NioSelectSyscall::default();
    let _ = nio.select(None, 0, std::ptr::null_mut(), std::ptr::null_mut(), std::ptr::null_mut(), &raw mut tv);
    kani::assert(false, "C14.select_of_more_than_143ms_does_not_return_within_143ms_of_waiting");
}

#[kani::proof]
#[kani::unwind(14)]
#[kani::stub(crate::net::EventLoops::wait_event, wait_event_stub)]
fn c14_select_invalid() {
    let mut tv = timeval { tv_sec: kani::any(), tv_usec: kani::any() };
    kani::assume(tv.tv_sec < 0 || tv.tv_usec < 0);
    clear_errno();
    let nio: NioSelectSyscall<NothingReady> = NioSelectSyscall::default();
    let r = nio.select(None, 0, std::ptr::null_mut(), std::ptr::null_mut(), std::ptr::null_mut(), &raw mut tv);
    kani::assert(r == -1 && errno() == libc::EINVAL, "C14.select_negative_time_is_einval");
    kani::assert(unsafe { WAIT_CALLS } == 0, "C14.select_invalid_time_does_not_wait");
}

#[kani::proof]
#[kani::unwind(14)]
#[kani::stub(crate::net::EventLoops::wait_event, wait_event_stub)]
fn c14_select_infinite() {
    let nio: NioSelectSyscall<NothingReady> = NioSelectSyscall::default();
    let _ = nio.select(None, 0, std::ptr::null_mut(), std::ptr::null_mut(), std::ptr::null_mut(), std::ptr::null_mut());
    kani::assert(false, "C14.select_null_timeout_never_returns_while_nothing_is_ready");
}

/// recorder without the round bound of `wait_event_stub`: the unit below is bounded by its unwind value instead
fn wait_event_long_stub(t: Option<Duration>) -> std::io::Result<()> {
    unsafe {
        WAIT_CALLS += 1;
        match t { Some(d) => { WAITED_MS += d.as_millis() as u64; } None => { WAIT_NONE = true; } }
    }
    Ok(())
}
static mut WAITED_MS: u64 = 7;

/// thorough tier: requests of up to 5 s (313 + 4 rounds of at most 16 ms, fully unwound), which spans the values
/// where the microsecond field no longer fits 32 bits of nanoseconds (4 294 968 us) and where it exceeds a second
#[kani::proof]
#[kani::unwind(330)]
#[kani::stub(crate::net::EventLoops::wait_event, wait_event_long_stub)]
fn c14_select_up_to_5s() {
    let usec: i64 = kani::any();
    kani::assume(usec > 143_000 && usec <= 5_000_000);
    unsafe { WAITED_MS = 0; }
    let mut tv = timeval { tv_sec: 0, tv_usec: usec };
    let nio: NioSelectSyscall<NothingReady> = NioSelectSyscall::default();
    let r = nio.select(None, 0, std::ptr::null_mut(), std::ptr::null_mut(), std::ptr::null_mut(), &raw mut tv);
    kani::assert(r == 0, "C14.select_times_out_with_0");
    let waited_us = unsafe { WAITED_MS } * 1_000;
    kani::assert(waited_us >= usec as u64, "C14.select_never_waits_less_than_requested");
    kani::assert(waited_us < usec as u64 + 1_000, "C14.select_waits_no_more_than_requested_plus_1ms");
    kani::cover!(usec == 5_000_000, "C14.cover_select_5s");
    kani::cover!(usec == 4_294_968, "C14.cover_select_u32_nanosecond_threshold");
}

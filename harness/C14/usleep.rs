//! C14 / O14.1 — usleep(us) hands the event loop exactly us microseconds. Child of syscall::unix::usleep.
use super::*;
use crate::syscall::unix::__verif_harness_c14_model_rs::*;
include!("/verif/harness/common/prelude.rs");

#[kani::proof]
#[kani::stub(catch_unwind, cu_stub)]
#[kani::stub(std::fmt::format, fmt_stub)]
#[kani::stub(crate::net::EventLoops::wait_event, wait_event_stub)]
#[kani::stub(crate::coroutine::Coroutine::current, MC::current)]
fn c14_usleep() {
    let us: c_uint = kani::any();
    let r = NioUsleepSyscall::default().usleep(None, us);
    kani::assert(r == 0, "C14.usleep_returns_0");
    kani::assert(unsafe { WAIT_CALLS } == 1 && !unsafe { WAIT_NONE }, "C14.usleep_waits_once_with_a_timeout");
    kani::assert(unsafe { WAITED_NS } == (us as u128) * 1_000, "C14.usleep_waits_exactly_the_requested_microseconds");
}

//! C14 / O14.4 — EventLoop::timed_wait_just(Some(d)) returns Ok only once the clock has reached entry + d, and
//! (the length of the slices it waits in is not part of the contract). Child of net::event_loop. Symbolic monotone clock.
use super::*;

static mut CLOCK: u64 = 0;
static mut CLOCK_READS: usize = 0;
static mut WAITS: usize = 0;
fn now_monotone() -> u64 {
    unsafe {
        CLOCK_READS += 1;
        kani::assume(CLOCK_READS <= 8);
        let step: u64 = kani::any();
        CLOCK = CLOCK.saturating_add(step);
        CLOCK
    }
}
/// wait_just(Some(t)): returns after at most t (earlier when events arrive); its own clock use is the clock
struct ME<'e>(PhantomData<&'e ()>);
impl<'e> ME<'e> {
    fn wait_just(_this: &EventLoop<'e>, timeout: Option<Duration>) -> std::io::Result<()> {
        unsafe { WAITS += 1; }
        Ok(())
    }
}

/// the caller may be a plain thread or a coroutine: either answer from `Coroutine::current()` (the object behind the
/// reference is never looked at by `timed_wait_just`; the state changes of a coroutine caller happen inside wait_just)
static mut CALLER_IS_COROUTINE: bool = false;
#[repr(align(64))]
struct Blob([u8; 4096]);
static mut BLOB: Blob = Blob([0x5A; 4096]);
struct MCUR<'c, Param, Yield, Return>(PhantomData<&'c (Param, Yield, Return)>);
impl<'c, Param, Yield, Return> MCUR<'c, Param, Yield, Return> {
    fn current<'current>() -> Option<&'current crate::coroutine::Coroutine<'c, Param, Yield, Return>> {
        unsafe { if CALLER_IS_COROUTINE { Some(&*(&raw const BLOB).cast::<crate::coroutine::Coroutine<'c, Param, Yield, Return>>()) } else { None } }
    }
}

#[kani::proof]
#[kani::unwind(10)]
#[kani::stub(crate::common::now, now_monotone)]
#[kani::stub(crate::net::event_loop::EventLoop::wait_just, ME::wait_just)]
#[kani::stub(crate::coroutine::Coroutine::current, MCUR::current)]
fn c14_timed_wait_just() {
    unsafe { CALLER_IS_COROUTINE = kani::any(); }
    // timed_wait_just reads no field of the loop: an uninitialised object is never dereferenced by the verified body
    let lp: std::mem::MaybeUninit<EventLoop<'static>> = std::mem::MaybeUninit::uninit();
    let lp_ref: &EventLoop<'static> = unsafe { &*lp.as_ptr() };
    let secs: u64 = kani::any(); let nanos: u32 = kani::any(); kani::assume(nanos < 1_000_000_000);
    let d = Duration::new(secs, nanos);
    let entry: u64 = kani::any();
    unsafe { CLOCK = entry; }
    let r = lp_ref.timed_wait_just(Some(d));
    let ok = r.is_ok(); std::mem::forget(r);
    kani::assert(ok, "C14.timed_wait_ok_when_inner_waits_ok");
    let deadline = (entry as u128 + d.as_nanos()).min(u64::MAX as u128);
    // the first clock reading may already be later than `entry`; the deadline is computed from a reading >= entry
    kani::assert(unsafe { CLOCK } as u128 >= deadline, "C14.timed_wait_returns_only_at_or_after_the_deadline");
    // (the 10 ms slice length is an implementation detail and deliberately not part of the contract; a
    // property-derived replacement, "no single wait longer than d", costs CBMC 400-600 s and was dropped)
    kani::cover!(unsafe { WAITS } >= 3, "C14.cover_timed_wait_several_rounds");
}

//! C14 / O14.3 — poll(timeout ms) with nothing ready returns 0 only after the waits it requested sum to exactly
//! the requested time, in milliseconds; a negative timeout never gives up. Bounded: timeout <= 64 ms.
use super::*;
use crate::syscall::unix::__verif_harness_c14_model_rs::*;

#[derive(Debug, Default)]
struct NothingReady {}
static mut INNER_TIMEOUT_NONZERO: bool = false;
impl PollSyscall for NothingReady {
    extern "C" fn poll(&self, _f: Option<&extern "C" fn(*mut pollfd, nfds_t, c_int) -> c_int>, _fds: *mut pollfd, _n: nfds_t, timeout: c_int) -> c_int {
        if timeout != 0 { unsafe { INNER_TIMEOUT_NONZERO = true; } }
        0
    }
}

#[kani::proof]
#[kani::unwind(14)]
#[kani::stub(crate::net::EventLoops::wait_event, wait_event_stub)]
fn c14_poll_timeout() {
    let t: c_int = kani::any();
    kani::assume(t >= 0 && t <= 143); // 1+2+4+8+16*8 = 143 ms = MAX_CALLS rounds
    let nio: NioPollSyscall<NothingReady> = NioPollSyscall::default();
    let r = nio.poll(None, std::ptr::null_mut(), 0, t);
    kani::assert(r == 0, "C14.poll_times_out_with_0");
    kani::assert(unsafe { WAITED_NS } == (t as u128) * 1_000_000, "C14.poll_waits_exactly_the_requested_milliseconds");
    kani::assert(!unsafe { INNER_TIMEOUT_NONZERO }, "C14.poll_never_blocks_the_thread_in_the_kernel");
    kani::cover!(t == 143 && unsafe { WAIT_CALLS } == MAX_CALLS, "C14.cover_poll_many_rounds");
}

/// every timeout above the slice-loop bound, up to c_int::MAX: after MAX_CALLS rounds at most 1+2+4+8+16*8 = 143 ms
/// have been requested, so a request of >= 144 ms cannot have returned yet
#[kani::proof]
#[kani::unwind(14)]
#[kani::stub(crate::net::EventLoops::wait_event, wait_event_stub)]
fn c14_poll_long() {
    let t: c_int = kani::any();
    kani::assume(t >= 144);
    let nio: NioPollSyscall<NothingReady> = NioPollSyscall::default();
    let _ = nio.poll(None, std::ptr::null_mut(), 0, t);
    kani::assert(false, "C14.poll_of_144ms_or_more_does_not_return_within_143ms_of_waiting");
}

/// negative timeout = wait for ever: within the explored bound the call never returns while nothing is ready
#[kani::proof]
#[kani::unwind(14)]
#[kani::stub(crate::net::EventLoops::wait_event, wait_event_stub)]
fn c14_poll_infinite() {
    let t: c_int = kani::any();
    kani::assume(t < 0);
    let nio: NioPollSyscall<NothingReady> = NioPollSyscall::default();
    let _ = nio.poll(None, std::ptr::null_mut(), 0, t);
    kani::assert(false, "C14.poll_negative_timeout_never_returns_while_nothing_is_ready");
}

/// recorder without the round bound of `wait_event_stub`: the unit below is bounded by its unwind value instead
fn wait_event_long_stub(t: Option<std::time::Duration>) -> std::io::Result<()> {
    unsafe {
        WAIT_CALLS += 1;
        match t { Some(d) => { WAITED_MS_P += d.as_millis() as u64; } None => { WAIT_NONE = true; } }
    }
    Ok(())
}
static mut WAITED_MS_P: u64 = 9;

/// thorough tier: requests of up to 5 s (313 + 4 rounds of at most 16 ms, fully unwound)
#[kani::proof]
#[kani::unwind(330)]
#[kani::stub(crate::net::EventLoops::wait_event, wait_event_long_stub)]
fn c14_poll_up_to_5s() {
    let t: c_int = kani::any();
    kani::assume(t > 143 && t <= 5_000);
    unsafe { WAITED_MS_P = 0; }
    let nio: NioPollSyscall<NothingReady> = NioPollSyscall::default();
    let r = nio.poll(None, std::ptr::null_mut(), 0, t);
    kani::assert(r == 0, "C14.poll_times_out_with_0");
    kani::assert(unsafe { WAITED_MS_P } == t as u64, "C14.poll_waits_exactly_the_requested_milliseconds");
    kani::assert(!unsafe { INNER_TIMEOUT_NONZERO }, "C14.poll_never_blocks_the_thread_in_the_kernel");
    kani::cover!(t == 5_000, "C14.cover_poll_5s");
    kani::cover!(t == 144, "C14.cover_poll_144ms");
}

//! C14 / O14.3 — poll(timeout ms) with nothing ready returns 0 only after the waits it requested sum to exactly
//! the requested time, in milliseconds; a negative timeout never gives up. Bounded: timeout <= 64 ms.
use super::*;
use crate::syscall::unix::__verif_harness_c14_model_rs::*;

#[derive(Debug, Default)]
struct NothingReady {}
static mut INNER_TIMEOUT_NONZERO: bool = false;
impl PollSyscall for NothingReady {
    extern "C" fn poll(&self, _f: Option<&extern "C" fn(*mut pollfd, nfds_t, c_int) -> c_int>, _fds: *mut pollfd, _n: nfds_t, timeout: c_int) -> c_int {
        if timeout != 0 { unsafe { INNER_TIMEOUT_NONZERO = true; } }
        0
    }
}

#[kani::proof]
#[kani::unwind(14)]
#[kani::stub(crate::net::EventLoops::wait_event, wait_event_stub)]
fn c14_poll_timeout() {
    let t: c_int = kani::any();
    kani::assume(t >= 0 && t <= 64);
    let nio: NioPollSyscall<NothingReady> = NioPollSyscall::default();
    let r = nio.poll(None, std::ptr::null_mut(), 0, t);
    kani::assert(r == 0, "C14.poll_times_out_with_0");
    kani::assert(unsafe { WAITED_NS } == (t as u128) * 1_000_000, "C14.poll_waits_exactly_the_requested_milliseconds");
    kani::assert(!unsafe { INNER_TIMEOUT_NONZERO }, "C14.poll_never_blocks_the_thread_in_the_kernel");
    kani::cover!(t == 64 && unsafe { WAIT_CALLS } > 4, "C14.cover_poll_many_rounds");
}

/// negative timeout = wait for ever: within the explored bound the call never returns while nothing is ready
#[kani::proof]
#[kani::unwind(14)]
#[kani::stub(crate::net::EventLoops::wait_event, wait_event_stub)]
fn c14_poll_infinite() {
    let t: c_int = kani::any();
    kani::assume(t < 0);
    let nio: NioPollSyscall<NothingReady> = NioPollSyscall::default();
    let _ = nio.poll(None, std::ptr::null_mut(), 0, t);
    kani::assert(false, "C14.poll_negative_timeout_never_returns_while_nothing_is_ready");
}

//! C14 / O14.1 — sleep(s) hands the event loop exactly s seconds and returns 0. Child of syscall::unix::sleep.
use super::*;
use crate::syscall::unix::__verif_harness_c14_model_rs::*;
include!("/verif/harness/common/prelude.rs");

#[kani::proof]
#[kani::stub(catch_unwind, cu_stub)]
#[kani::stub(std::fmt::format, fmt_stub)]
#[kani::stub(crate::net::EventLoops::wait_event, wait_event_stub)]
#[kani::stub(crate::coroutine::Coroutine::current, MC::current)]
fn c14_sleep() {
    let secs: c_uint = kani::any();
    let r = NioSleepSyscall::default().sleep(None, secs);
    kani::assert(r == 0, "C14.sleep_returns_0");
    kani::assert(unsafe { WAIT_CALLS } == 1 && !unsafe { WAIT_NONE }, "C14.sleep_waits_once_with_a_timeout");
    kani::assert(unsafe { WAITED_NS } == (secs as u128) * 1_000_000_000, "C14.sleep_waits_exactly_the_requested_seconds");
}

//! C14 / O14.1 + O14.2 — nanosleep: exact duration for valid requests, EINVAL (no wait) for invalid ones.
use super::*;
use crate::syscall::unix::__verif_harness_c14_model_rs::*;
include!("/verif/harness/common/prelude.rs");

#[kani::proof]
#[kani::stub(catch_unwind, cu_stub)]
#[kani::stub(std::fmt::format, fmt_stub)]
#[kani::stub(crate::net::EventLoops::wait_event, wait_event_stub)]
#[kani::stub(crate::coroutine::Coroutine::current, MC::current)]
fn c14_nanosleep() {
    let rq = timespec { tv_sec: kani::any(), tv_nsec: kani::any() };
    let mut rm = timespec { tv_sec: 7, tv_nsec: 7 };
    let with_rm: bool = kani::any();
    clear_errno();
    let r = NioNanosleepSyscall::default().nanosleep(None, &rq, if with_rm { &raw mut rm } else { std::ptr::null_mut() });
    let valid = rq.tv_sec >= 0 && rq.tv_nsec >= 0 && rq.tv_nsec <= 999_999_999;
    if valid {
        kani::assert(r == 0, "C14.nanosleep_returns_0");
        kani::assert(unsafe { WAIT_CALLS } == 1 && !unsafe { WAIT_NONE }, "C14.nanosleep_waits_once_with_a_timeout");
        kani::assert(unsafe { WAITED_NS } == (rq.tv_sec as u128) * 1_000_000_000 + rq.tv_nsec as u128, "C14.nanosleep_waits_exactly_the_requested_time");
        if with_rm { kani::assert(rm.tv_sec == 0 && rm.tv_nsec == 0, "C14.nanosleep_reports_no_remaining_time"); }
    } else {
        kani::assert(r == -1 && errno() == libc::EINVAL, "C14.nanosleep_invalid_time_is_einval");
        kani::assert(unsafe { WAIT_CALLS } == 0, "C14.nanosleep_invalid_time_does_not_wait");
    }
    kani::cover!(valid && rq.tv_sec > 0, "C14.cover_nanosleep_valid");
    kani::cover!(!valid, "C14.cover_nanosleep_invalid");
}

//! C14 — environment contract shared by the timed-wait harnesses (child of syscall::unix).
//! EventLoops::wait_event(d) is replaced by a recorder: it notes the duration it was asked to wait
//! (that it really waits at least that long is O14.4, stated on EventLoop::timed_wait_just itself).
use super::*;
use std::time::Duration;

pub(crate) static mut WAITED_NS: u128 = 0;
pub(crate) static mut WAIT_CALLS: usize = 0;
pub(crate) static mut LAST_WAIT_NS: u128 = 0;
pub(crate) static mut MAX_WAIT_NS: u128 = 0;
pub(crate) static mut WAIT_NONE: bool = false;
pub(crate) const MAX_CALLS: usize = 12;

pub(crate) fn wait_event_stub(t: Option<Duration>) -> std::io::Result<()> {
    unsafe {
        WAIT_CALLS += 1;
        kani::assume(WAIT_CALLS <= MAX_CALLS);
        match t { Some(d) => { LAST_WAIT_NS = d.as_nanos(); WAITED_NS += d.as_nanos(); if d.as_nanos() > MAX_WAIT_NS { MAX_WAIT_NS = d.as_nanos(); } } None => { WAIT_NONE = true; } }
    }
    Ok(())
}

/// the calling thread is a plain thread (the coroutine case only adds a state change before the same wait)
pub(crate) struct MC<'c, Param, Yield, Return>(std::marker::PhantomData<&'c (Param, Yield, Return)>);
impl<'c, Param, Yield, Return> MC<'c, Param, Yield, Return> {
    pub(crate) fn current<'current>() -> Option<&'current crate::coroutine::Coroutine<'c, Param, Yield, Return>> { None }
}

pub(crate) fn errno() -> c_int { unsafe { *libc::__errno_location() } }
pub(crate) fn clear_errno() { unsafe { *libc::__errno_location() = 0; } }

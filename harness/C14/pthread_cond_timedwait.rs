//! C14 / O14.2 + O14.4 — pthread_cond_timedwait: ETIMEDOUT only once the absolute deadline has passed on the
//! clock; invalid abstime is EINVAL. Symbolic monotone clock; bounded by the number of clock readings.
use super::*;
use crate::syscall::unix::__verif_harness_c14_model_rs::*;

static mut CLOCK: u64 = 0;
static mut CLOCK_READS: usize = 0;
/// monotone clock: every reading is >= the previous one
fn now_monotone() -> u64 {
    unsafe {
        CLOCK_READS += 1;
        kani::assume(CLOCK_READS <= 9);
        let step: u64 = kani::any();
        CLOCK = CLOCK.saturating_add(step);
        CLOCK
    }
}
#[derive(Debug, Default)]
struct NotSignalled {}
static mut INNER_DEADLINE_OK: bool = true;
impl PthreadCondTimedwaitSyscall for NotSignalled {
    extern "C" fn pthread_cond_timedwait(&self, _f: Option<&extern "C" fn(*mut pthread_cond_t, *mut pthread_mutex_t, *const timespec) -> c_int>,
        _c: *mut pthread_cond_t, _l: *mut pthread_mutex_t, abstime: *const timespec) -> c_int {
        let a = unsafe { *abstime };
        if a.tv_sec < 0 || a.tv_nsec < 0 || a.tv_nsec > 999_999_999 { unsafe { INNER_DEADLINE_OK = false; } }
        libc::ETIMEDOUT
    }
}

#[kani::proof]
#[kani::unwind(8)]
#[kani::stub(crate::net::EventLoops::wait_event, wait_event_stub)]
#[kani::stub(crate::common::now, now_monotone)]
fn c14_cond_timedwait() {
    let abst = timespec { tv_sec: kani::any(), tv_nsec: kani::any() };
    kani::assume(abst.tv_sec < 4_000_000_000); // until the year 2096
    unsafe { CLOCK = kani::any(); }
    let nio: NioPthreadCondTimedwaitSyscall<NotSignalled> = NioPthreadCondTimedwaitSyscall::default();
    let r = nio.pthread_cond_timedwait(None, std::ptr::null_mut(), std::ptr::null_mut(), &abst);
    let valid = abst.tv_sec >= 0 && abst.tv_nsec >= 0 && abst.tv_nsec <= 999_999_999;
    if !valid {
        kani::assert(r == libc::EINVAL, "C14.cond_timedwait_invalid_abstime_is_einval");
        kani::assert(unsafe { WAIT_CALLS } == 0, "C14.cond_timedwait_invalid_abstime_does_not_wait");
    } else {
        let deadline = (abst.tv_sec as u128) * 1_000_000_000 + abst.tv_nsec as u128;
        kani::assert(r == libc::ETIMEDOUT, "C14.cond_timedwait_unsignalled_returns_etimedout");
        kani::assert(unsafe { CLOCK } as u128 >= deadline, "C14.cond_timedwait_never_times_out_before_the_deadline");
        kani::assert(unsafe { INNER_DEADLINE_OK }, "C14.cond_timedwait_hands_down_valid_deadlines");
        // (the 10 ms slice length is an implementation detail and deliberately not part of the contract)
    }
    kani::cover!(valid && unsafe { WAIT_CALLS } >= 1, "C14.cover_cond_timedwait_waited");
    kani::cover!(!valid, "C14.cover_cond_timedwait_invalid");
}

//! C24 (partial) — the classification a memory fault gets: "stack overflow" exactly when the faulting stack pointer
//! lies outside every stack segment of the coroutine, "invalid memory reference" otherwise. Child of
//! coroutine::korosensei: the real `trap_handler` (signal-handler body) and the real `stack_ptr_in_bounds` run on a
//! struct-literal coroutine with 1..=3 arbitrary segments and a fabricated ucontext holding an arbitrary stack
//! pointer. What corosensei does with the closure (redirecting the faulting thread) is its contract (shim).
use super::*;
use crate::common::constants::CoroutineState;

static mut CUR: *const std::ffi::c_void = std::ptr::null();
struct MC<'c, Param, Yield, Return>(std::marker::PhantomData<&'c (Param, Yield, Return)>);
impl<'c, Param, Yield, Return> MC<'c, Param, Yield, Return> {
    fn current<'current>() -> Option<&'current Coroutine<'c, Param, Yield, Return>> {
        unsafe { if CUR.is_null() { None } else { Some(&*CUR.cast::<Coroutine<'c, Param, Yield, Return>>()) } }
    }
}

fn any_segment() -> StackInfo {
    let bottom: usize = kani::any();
    let top: usize = kani::any();
    kani::assume(bottom < top);
    StackInfo { stack_top: top, stack_bottom: bottom }
}

fn mk(segs: VecDeque<StackInfo>) -> Coroutine<'static, (), (), ()> {
    let stack = DefaultStack::new(4096).unwrap();
    Coroutine {
        id: 1,
        name: String::new(),
        inner: corosensei::Coroutine::with_stack(stack, |_, ()| Ok(())),
        state: Cell::new(CoroutineState::Running),
        stack_infos: UnsafeCell::new(segs),
        listeners: VecDeque::new(),
        local: Default::default(),
        priority: None,
    }
}

/// O24.1: the predicate itself, for every list of 1..=3 segments and every pointer
#[kani::proof]
#[kani::unwind(5)]
fn c24_stack_ptr_in_bounds_is_membership() {
    let n: usize = kani::any();
    kani::assume(n >= 1 && n <= 3);
    let s = [any_segment(), any_segment(), any_segment()];
    let mut v = VecDeque::with_capacity(3);
    let mut i = 0;
    while i < n { v.push_back(s[i]); i += 1; }
    let co = mk(v);
    let sp: u64 = kani::any();
    let mut inside = false;
    let mut i = 0;
    while i < n { if s[i].stack_bottom as u64 <= sp && sp < s[i].stack_top as u64 { inside = true; } i += 1; }
    kani::assert(co.stack_ptr_in_bounds(sp) == inside, "C24.in_bounds_iff_inside_some_segment");
    kani::cover!(inside && n == 3, "C24.cover_inside_a_later_segment");
    kani::cover!(!inside && n == 3, "C24.cover_outside_all_segments");
    std::mem::forget(co);
}

/// O24.2: the handler's classification, for every fault address register and every segment list (the first
/// segment is the stack the coroutine was created with, later ones were obtained by growing)
#[kani::proof]
#[kani::unwind(5)]
#[kani::stub(crate::coroutine::Coroutine::current, MC::current)]
fn c24_trap_handler_classifies_by_the_coroutines_segments() {
    let n: usize = kani::any();
    kani::assume(n >= 1 && n <= 2);
    let stack = DefaultStack::new(4096).unwrap();
    let first = StackInfo { stack_top: stack.base().get(), stack_bottom: stack.limit().get() };
    let grown = any_segment();
    let mut v = VecDeque::with_capacity(2);
    v.push_back(first);
    if n == 2 { v.push_back(grown); }
    let co = Coroutine::<'static, (), (), ()> {
        id: 1, name: String::new(), inner: corosensei::Coroutine::with_stack(stack, |_, ()| Ok(())),
        state: Cell::new(CoroutineState::Running), stack_infos: UnsafeCell::new(v), listeners: VecDeque::new(), local: Default::default(), priority: None,
    };
    let sp: u64 = kani::any();
    kani::assume(sp <= i64::MAX as u64); // user-space stack pointers are in the lower half
    let mut ctx: libc::ucontext_t = unsafe { std::mem::zeroed() };
    ctx.uc_mcontext.gregs[libc::REG_RSP as usize] = sp as i64;
    unsafe { CUR = (&raw const co).cast(); corosensei::trap::TRAP_SETUPS = 0; }
    Coroutine::<'static, (), (), ()>::trap_handler(libc::SIGSEGV, std::ptr::null_mut(), (&raw mut ctx).cast());
    let inside = (first.stack_bottom as u64 <= sp && sp < first.stack_top as u64) || (n == 2 && grown.stack_bottom as u64 <= sp && sp < grown.stack_top as u64);
    unsafe {
        kani::assert(corosensei::trap::TRAP_SETUPS == 1, "C24.fault_in_a_coroutine_is_handed_to_its_trap_path_once");
        let r: Result<(), &'static str> = std::ptr::read((&raw const corosensei::trap::TRAP_RESULT).cast());
        match r {
            Err(m) => {
                if inside { kani::assert(m.len() == "invalid memory reference".len(), "C24.fault_inside_the_stack_segments_is_not_reported_as_overflow"); }
                else { kani::assert(m.len() == "stack overflow".len(), "C24.fault_outside_the_stack_segments_is_reported_as_stack_overflow"); }
            }
            Ok(()) => kani::assert(false, "C24.fault_ends_the_coroutine_with_an_error"),
        }
        kani::assert(ctx.uc_mcontext.gregs[libc::REG_RIP as usize] == 1 && ctx.uc_mcontext.gregs[libc::REG_RSP as usize] == 1, "C24.faulting_thread_is_redirected_to_the_trap_path");
        kani::cover!(n == 2 && inside && !(first.stack_bottom as u64 <= sp && sp < first.stack_top as u64), "C24.cover_fault_inside_a_grown_segment");
        kani::cover!(!inside, "C24.cover_overflow");
        CUR = std::ptr::null();
    }
    std::mem::forget(co);
}

// O24.3: how the handler is installed. A stack overflow leaves no room for a signal frame on the faulting stack,
// so ending "that coroutine with an error" (rather than the process) requires the SIGSEGV/SIGBUS handler to run on
// the alternate signal stack. nix's sigaction (a libc call) is represented by a recorder.
static mut INSTALLED: [(i32, bool, bool); 2] = [(0x7601, false, false), (0x7602, false, false)]; // (signal, SA_ONSTACK, SA_SIGINFO)
static mut NINSTALLED: usize = 0x7603;
unsafe fn sigaction_recorder(signal: Signal, sa: &SigAction) -> nix::Result<SigAction> {
    if NINSTALLED < 2 { INSTALLED[NINSTALLED] = (signal as i32, sa.flags().contains(SaFlags::SA_ONSTACK), sa.flags().contains(SaFlags::SA_SIGINFO)); }
    NINSTALLED += 1;
    Ok(*sa)
}
/// libc models: building the signal mask has no bearing on the obligation
#[no_mangle]
pub unsafe extern "C" fn sigemptyset(_set: *mut libc::sigset_t) -> libc::c_int { 0 }
#[no_mangle]
pub unsafe extern "C" fn sigaddset(_set: *mut libc::sigset_t, _signum: libc::c_int) -> libc::c_int { 0 }
#[kani::proof]
#[kani::unwind(5)]
#[kani::stub(nix::sys::signal::sigaction, sigaction_recorder)]
#[kani::stub(crate::coroutine::Coroutine::current, MC::current)]
fn c24_trap_handler_runs_on_the_alternate_stack() {
    let keep = (sigemptyset as usize) ^ (sigaddset as usize);
    kani::assume(keep != 1);
    unsafe { NINSTALLED = 0; }
    Coroutine::<'static, (), (), ()>::setup_trap_handler();
    unsafe {
        kani::assert(NINSTALLED == 2, "C24.both_fault_signals_are_handled");
        let (a, b) = (INSTALLED[0], INSTALLED[1]);
        kani::assert((a.0 == libc::SIGSEGV && b.0 == libc::SIGBUS) || (a.0 == libc::SIGBUS && b.0 == libc::SIGSEGV), "C24.both_fault_signals_are_handled");
        kani::assert(a.1 && b.1, "C24.fault_handler_runs_on_the_alternate_signal_stack");
        kani::assert(a.2 && b.2, "C24.fault_handler_receives_the_faulting_context");
    }
}

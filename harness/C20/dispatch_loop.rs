//! C20 / O20.2 — the event-loop half of the dispatch: `EventLoop::resume(token)` hands the token to the scheduler's
//! try_resume exactly when a coroutine registered that token (COROUTINE_TOKENS), consuming the registration; a token
//! registered by a plain thread (or unknown) resumes nobody. Child of net::event_loop. try_resume is represented
//! by a recorder (its own contract is c20_try_resume_requeues_exactly_the_waiter).
use super::*;

static mut RESUMED: [u64; 2] = [0x7811, 0x7812];
static mut NRESUMED: usize = 0x7813;
struct MS<'s>(PhantomData<&'s ()>);
impl<'s> MS<'s> {
    fn try_resume(_s: &crate::scheduler::Scheduler<'s>, co_id: u64) { unsafe { if NRESUMED < 2 { RESUMED[NRESUMED] = co_id; } NRESUMED += 1; } }
}

#[kani::proof]
#[kani::unwind(5)]
#[kani::stub(crate::scheduler::Scheduler::try_resume, MS::try_resume)]
fn c20_resume_dispatches_registered_tokens_only() {
    // resume reads no field of the loop (the scheduler it derefs to is only passed on to the recorder)
    let lp: std::mem::MaybeUninit<EventLoop<'static>> = std::mem::MaybeUninit::uninit();
    let lp_ref: &EventLoop<'static> = unsafe { &*lp.as_ptr() };
    let reg: u64 = kani::any(); // a token some coroutine registered when it started waiting
    let other: u64 = kani::any();
    kani::assume(reg != other);
    let _ = COROUTINE_TOKENS.insert(reg);
    let t: u64 = kani::any();
    unsafe { NRESUMED = 0; lp_ref.resume(t); }
    unsafe {
        if t == reg {
            kani::assert(NRESUMED == 1 && RESUMED[0] == reg, "C20.event_for_a_waiting_coroutine_reaches_the_scheduler_with_its_token");
            kani::assert(!COROUTINE_TOKENS.contains(&reg), "C20.registration_is_consumed_by_the_event");
        } else {
            kani::assert(NRESUMED == 0, "C20.event_with_another_token_resumes_nobody");
            kani::assert(COROUTINE_TOKENS.contains(&reg), "C20.other_registrations_are_kept");
        }
        kani::cover!(t == reg, "C20.cover_registered_token");
    }
}

// ---------------------------------------------------------------------------------------------------------------
// The loop's round: `wait_event` runs the scheduler for (part of) the slice and then polls the selector. Promptness
// of a readiness wake-up needs the poll to happen in EVERY round, also when the scheduler used up the whole slice
// (another coroutine stayed runnable): otherwise a parked waiter is only resumed by its time-out.
static mut POLLS: usize = 0x7821;
static mut SCHED_LEFT_NS: u64 = 0x7823;
static mut SCHED_FAILS: bool = false;
static mut CALLER_IS_COROUTINE: bool = false;
#[repr(align(64))]
struct Blob([u8; 4096]);
static mut BLOB: Blob = Blob([0x5A; 4096]);
struct MCUR<'c, Param, Yield, Return>(PhantomData<&'c (Param, Yield, Return)>);
impl<'c, Param, Yield, Return> MCUR<'c, Param, Yield, Return> {
    fn current<'current>() -> Option<&'current crate::coroutine::Coroutine<'c, Param, Yield, Return>> {
        unsafe { if CALLER_IS_COROUTINE { Some(&*(&raw const BLOB).cast::<crate::coroutine::Coroutine<'c, Param, Yield, Return>>()) } else { None } }
    }
}
struct MPL<'p>(PhantomData<&'p ()>);
impl<'p> MPL<'p> {
    fn try_timed_schedule_task(_p: &mut crate::co_pool::CoroutinePool<'p>, _dur: Duration) -> std::io::Result<u64> {
        unsafe { Ok(SCHED_LEFT_NS) } // (a failing scheduler round is not explored here: io::Error's recursive drop glue on the `?` path costs CBMC more than 15 minutes)
    }
    fn try_schedule_task(_p: &mut crate::co_pool::CoroutinePool<'p>) -> std::io::Result<()> {
        Ok(())
    }
}
struct MEL<'e>(PhantomData<&'e ()>);
impl<'e> MEL<'e> {
    fn wait_just(_this: &EventLoop<'e>, timeout: Option<Duration>) -> std::io::Result<()> {
        unsafe { POLLS += 1; } let _ = timeout;
        Ok(())
    }
}

#[kani::proof]
#[kani::unwind(4)]
#[kani::stub(crate::coroutine::Coroutine::current, MCUR::current)]
#[kani::stub(crate::co_pool::CoroutinePool::try_timed_schedule_task, MPL::try_timed_schedule_task)]
#[kani::stub(crate::co_pool::CoroutinePool::try_schedule_task, MPL::try_schedule_task)]
#[kani::stub(crate::net::event_loop::EventLoop::wait_just, MEL::wait_just)]
fn c20_every_round_polls_the_selector() {
    let mut lp: std::mem::MaybeUninit<EventLoop<'static>> = std::mem::MaybeUninit::uninit();
    let lp_ref: &mut EventLoop<'static> = unsafe { &mut *lp.as_mut_ptr() };
    let has_timeout: bool = kani::any();
    let ns: u64 = kani::any();
    let left: u64 = kani::any();
    kani::assume(left <= ns); // the scheduler reports how much of the slice is left
    unsafe { POLLS = 0; SCHED_LEFT_NS = left; SCHED_FAILS = false; CALLER_IS_COROUTINE = kani::any(); }
    let r = lp_ref.wait_event(if has_timeout { Some(Duration::from_nanos(ns)) } else { None });
    let ok = r.is_ok();
    std::mem::forget(r);
    unsafe {
        if ok {
            kani::assert(POLLS == 1, "C20.every_round_polls_the_selector_once");
        } else {
            kani::assert(SCHED_FAILS, "C20.a_round_fails_only_if_scheduling_fails");
        }
        kani::cover!(ok && has_timeout && left == 0 && !CALLER_IS_COROUTINE, "C20.cover_poll_after_a_used_up_slice");
    }
}

//! C20 / O20.2 — the event-loop half of the dispatch: `EventLoop::resume(token)` hands the token to the scheduler's
//! try_resume exactly when a coroutine registered that token (COROUTINE_TOKENS), consuming the registration; a token
//! registered by a plain thread (or unknown) resumes nobody. Child of net::event_loop. try_resume is represented
//! by a recorder (its own contract is c20_try_resume_requeues_exactly_the_waiter).
use super::*;

static mut RESUMED: [u64; 2] = [0x7811, 0x7812];
static mut NRESUMED: usize = 0x7813;
struct MS<'s>(PhantomData<&'s ()>);
impl<'s> MS<'s> {
    fn try_resume(_s: &crate::scheduler::Scheduler<'s>, co_id: u64) { unsafe { if NRESUMED < 2 { RESUMED[NRESUMED] = co_id; } NRESUMED += 1; } }
}

#[kani::proof]
#[kani::unwind(5)]
#[kani::stub(crate::scheduler::Scheduler::try_resume, MS::try_resume)]
fn c20_resume_dispatches_registered_tokens_only() {
    // resume reads no field of the loop (the scheduler it derefs to is only passed on to the recorder)
    let lp: std::mem::MaybeUninit<EventLoop<'static>> = std::mem::MaybeUninit::uninit();
    let lp_ref: &EventLoop<'static> = unsafe { &*lp.as_ptr() };
    let reg: u64 = kani::any(); // a token some coroutine registered when it started waiting
    let other: u64 = kani::any();
    kani::assume(reg != other);
    let _ = COROUTINE_TOKENS.insert(reg);
    let t: u64 = kani::any();
    unsafe { NRESUMED = 0; lp_ref.resume(t); }
    unsafe {
        if t == reg {
            kani::assert(NRESUMED == 1 && RESUMED[0] == reg, "C20.event_for_a_waiting_coroutine_reaches_the_scheduler_with_its_token");
            kani::assert(!COROUTINE_TOKENS.contains(&reg), "C20.registration_is_consumed_by_the_event");
        } else {
            kani::assert(NRESUMED == 0, "C20.event_with_another_token_resumes_nobody");
            kani::assert(COROUTINE_TOKENS.contains(&reg), "C20.other_registrations_are_kept");
        }
        kani::cover!(t == reg, "C20.cover_registered_token");
    }
}

//! C20 — O20.1: the token decoded from a delivered readiness event is the token that was registered
//! (all 2^64 tokens, register and reregister paths, every interest). Loop-free apart from the <= 2 shim slots.
//! Real code on the path: Poller::do_register / do_reregister / do_select (mio_adapter.rs), Event::get_token,
//! Selector::register / reregister / select bookkeeping (selector/mod.rs).
use super::*;
use crate::net::selector::mio_adapter::Poller;
use mio::{Events, Interest as MioInterest};

fn any_interest() -> MioInterest {
    let which: u8 = kani::any();
    kani::assume(which < 3);
    match which { 0 => MioInterest::READABLE, 1 => MioInterest::WRITABLE, _ => MioInterest::READABLE.add(MioInterest::WRITABLE) }
}

#[kani::proof]
#[kani::unwind(4)]
fn c20_codec_register() {
    let poller = Poller::new().unwrap();
    let token: u64 = kani::any();
    let fd: c_int = kani::any();
    kani::assume(fd >= 0);
    let r = Selector::do_register(&poller, fd, token, any_interest());
    let ok = r.is_ok();
    std::mem::forget(r);
    kani::assert(ok, "C20.register_on_fresh_fd_succeeds");
    unsafe { mio::FIRE = 1; }
    let mut events = Events::with_capacity(4);
    let p = Selector::do_select(&poller, &mut events, None);
    std::mem::forget(p);
    let mut seen = 0;
    for e in events.iter() {
        kani::assert(Event::get_token(e) == token, "C20.decode_encode_identity");
        seen += 1;
    }
    kani::cover!(seen == 1 && token > u32::MAX as u64, "C20.cover_event_delivered_wide_token");
    kani::assert(seen == 1, "C20.event_delivered_once");
    std::mem::forget(poller);
}

#[kani::proof]
#[kani::unwind(4)]
fn c20_codec_reregister() {
    let poller = Poller::new().unwrap();
    let token0: u64 = kani::any();
    let token: u64 = kani::any();
    let fd: c_int = kani::any();
    kani::assume(fd >= 0);
    let r = Selector::do_register(&poller, fd, token0, any_interest());
    std::mem::forget(r);
    let r = Selector::do_reregister(&poller, fd, token, any_interest());
    let ok = r.is_ok();
    std::mem::forget(r);
    kani::assert(ok, "C20.reregister_on_registered_fd_succeeds");
    unsafe { mio::FIRE = 1; }
    let mut events = Events::with_capacity(4);
    let p = Selector::do_select(&poller, &mut events, None);
    std::mem::forget(p);
    let mut seen = 0;
    for e in events.iter() {
        kani::assert(Event::get_token(e) == token, "C20.decode_encode_identity_after_reregister");
        seen += 1;
    }
    kani::cover!(seen == 1 && token > u32::MAX as u64 && token0 != token, "C20.cover_rereg_event_delivered");
    std::mem::forget(poller);
}

/// Two descriptors registered under different tokens: an event for the one that fired decodes to its own
/// token, never to the other's ("readiness of one descriptor never resumes a coroutine waiting on a
/// different one" reduces to this plus O20.2).
#[kani::proof]
#[kani::unwind(4)]
fn c20_two_fds_distinct() {
    let poller = Poller::new().unwrap();
    let t1: u64 = kani::any();
    let t2: u64 = kani::any();
    kani::assume(t1 != t2);
    let fd1: c_int = 5; let fd2: c_int = 9;
    let r = poller.add_read_event(fd1, t1); let ok1 = r.is_ok(); std::mem::forget(r);
    let r = poller.add_read_event(fd2, t2); let ok2 = r.is_ok(); std::mem::forget(r);
    kani::assert(ok1 && ok2, "C20.add_read_event_ok");
    let first: bool = kani::any();
    unsafe { mio::FIRE = if first { 1 } else { 2 }; }
    let mut events = Events::with_capacity(4);
    let p = poller.select(&mut events, None);
    std::mem::forget(p);
    let mut seen = 0;
    for e in events.iter() {
        let want = if first { t1 } else { t2 };
        let other = if first { t2 } else { t1 };
        kani::assert(Event::get_token(e) == want, "C20.event_decodes_to_its_own_waiter");
        kani::assert(Event::get_token(e) != other, "C20.event_never_decodes_to_other_waiter");
        seen += 1;
    }
    kani::assert(seen == 1, "C20.exactly_one_event");
    kani::cover!(seen == 1, "C20.cover_two_fds");
    std::mem::forget(poller);
}

/// A failed poll (epoll_wait interrupted by a signal, or any other errno) must not leave the selector unusable:
/// the error is reported, the poll guard is released on that path too, and the next select delivers the pending
/// event to its waiter. Otherwise every later wait on this loop ends by timeout only.
#[kani::proof]
#[kani::unwind(4)]
fn c20_failed_poll_releases_the_guard() {
    let poller = Poller::new().unwrap();
    let t1: u64 = kani::any();
    let fd1: c_int = 5;
    let r = poller.add_read_event(fd1, t1); let ok1 = r.is_ok(); std::mem::forget(r);
    kani::assert(ok1, "C20.add_read_event_ok");
    let e: i32 = kani::any();
    kani::assume(e == libc::EINTR || e == libc::EBADF || e == libc::ENOMEM);
    unsafe { mio::POLL_FAIL_NEXT = e; mio::FIRE = 1; }
    let mut events = Events::with_capacity(4);
    let p = poller.select(&mut events, None);
    let failed = p.is_err();
    std::mem::forget(p);
    kani::assert(failed, "C20.poll_failure_is_reported");
    kani::assert(!poller.waiting().load(Ordering::Acquire), "C20.poll_guard_released_on_every_return");
    let mut events = Events::with_capacity(4);
    let p = poller.select(&mut events, None);
    std::mem::forget(p);
    let mut seen = 0;
    for ev in events.iter() {
        kani::assert(Event::get_token(ev) == t1, "C20.event_decodes_to_its_own_waiter");
        seen += 1;
    }
    kani::assert(seen == 1, "C20.event_delivered_after_a_failed_poll");
    kani::cover!(seen == 1 && e == libc::EINTR, "C20.cover_event_after_interrupted_poll");
    std::mem::forget(poller);
}

/// Two waiters on one descriptor (one per direction) share one OS registration, which carries one token. The call
/// that adds the second direction must register the token it was given (its caller is the coroutine about to
/// wait): the event then decodes to that caller, never to the earlier waiter recorded for the other direction.
#[kani::proof]
#[kani::unwind(4)]
fn c20_second_direction_registers_its_callers_token() {
    let poller = Poller::new().unwrap();
    let t1: u64 = kani::any();
    let t2: u64 = kani::any();
    kani::assume(t1 != t2);
    let fd: c_int = 5;
    let read_first: bool = kani::any();
    let r = if read_first { poller.add_read_event(fd, t1) } else { poller.add_write_event(fd, t1) };
    let ok1 = r.is_ok(); std::mem::forget(r);
    let r = if read_first { poller.add_write_event(fd, t2) } else { poller.add_read_event(fd, t2) };
    let ok2 = r.is_ok(); std::mem::forget(r);
    kani::assert(ok1 && ok2, "C20.add_event_ok");
    unsafe { mio::FIRE = 1; }
    let mut events = Events::with_capacity(4);
    let p = poller.select(&mut events, None);
    std::mem::forget(p);
    let mut seen = 0;
    for ev in events.iter() {
        kani::assert(Event::get_token(ev) == t2, "C20.event_decodes_to_the_waiter_that_registered_last");
        seen += 1;
    }
    kani::assert(seen == 1, "C20.exactly_one_event");
    kani::cover!(seen == 1 && read_first, "C20.cover_write_added_to_read");
    kani::cover!(seen == 1 && !read_first, "C20.cover_read_added_to_write");
    std::mem::forget(poller);
}

//! C20 / O20.2 — the scheduler half of the dispatch: `try_resume(id)` re-queues exactly the coroutine parked under
//! `id` (its key in the syscall table), marks exactly that coroutine's wait as answered (Syscall(.., Callback)) and
//! touches no other parked coroutine. Child of scheduler; real Scheduler::new; the ready queue's push is represented
//! by a recorder (queue behaviour is C05).
use super::*;
use crate::common::constants::{CoroutineState, SyscallName, SyscallState};
include!("/verif/harness/common/prelude.rs");

static mut PUSHED: [u64; 2] = [0x7801, 0x7802]; // ids handed to the ready queue, in order
static mut PUSHED_CALLBACK: [bool; 2] = [false, false]; // whether each was in Syscall(.., Callback) when handed over
static mut NPUSHED: usize = 0x7803;
mod mirror {
    use super::{NPUSHED, PUSHED, PUSHED_CALLBACK};
    use crate::common::constants::{CoroutineState, SyscallState};
    use crate::common::ordered_work_steal::{Ordered, OrderedLocalQueue};
    use crate::scheduler::SchedulableCoroutine;
    use std::fmt::Debug;
    pub(super) struct MQ<'l, T: Debug + Ordered>(std::marker::PhantomData<&'l T>);
    impl<'l, T: Debug + Ordered> MQ<'l, T> {
        pub(super) fn push(_q: &OrderedLocalQueue<'l, T>, item: T) {
            assert!(std::mem::size_of::<T>() == std::mem::size_of::<SchedulableCoroutine<'static>>());
            let co: &SchedulableCoroutine<'static> = unsafe { &*(&raw const item).cast() };
            unsafe {
                if NPUSHED < 2 { PUSHED[NPUSHED] = co.id(); PUSHED_CALLBACK[NPUSHED] = matches!(co.state(), CoroutineState::Syscall(_, _, SyscallState::Callback)); }
                NPUSHED += 1;
            }
            std::mem::forget(item);
        }
    }
}

/// `Coroutine::syscall` as a callee contract (the transition itself is C07: from Syscall(call, Suspend) the same
/// call's Callback sub-state is a documented edge, taken, reported once): it installs the requested state.
/// Its error path builds a boxed io::Error whose recursive drop glue costs CBMC 15 minutes of symbolic execution.
struct MCO<'c, Param, Yield, Return>(std::marker::PhantomData<&'c (Param, Yield, Return)>);
impl<Param, Yield, Return> MCO<'_, Param, Yield, Return>
where
    Yield: std::fmt::Debug + Copy + Eq,
    Return: std::fmt::Debug + Copy + Eq,
{
    fn syscall(co: &crate::coroutine::Coroutine<'_, Param, Yield, Return>, val: Yield, syscall: SyscallName, syscall_state: SyscallState) -> std::io::Result<()> {
        co.state.set(CoroutineState::Syscall(val, syscall, syscall_state));
        Ok(())
    }
}

fn any_name() -> SyscallName { let k: u8 = kani::any(); match k { 0 => SyscallName::read, 1 => SyscallName::write, _ => SyscallName::connect } }

#[kani::proof]
#[kani::unwind(4)]
#[kani::stub(catch_unwind, cu_stub)]
#[kani::stub(std::fmt::format, fmt_stub)]
#[kani::stub(crate::common::now, now_stub)]
#[kani::stub(crate::common::ordered_work_steal::OrderedLocalQueue::push, mirror::MQ::push)]
#[kani::stub(crate::coroutine::Coroutine::syscall, MCO::syscall)]
fn c20_try_resume_requeues_exactly_the_waiter() {
    let s = Scheduler::new(String::new(), 4096);
    let a: u64 = kani::any();
    let b: u64 = kani::any();
    kani::assume(a != b);
    let (na, nb) = (any_name(), any_name());
    let (ta, tb): (u64, u64) = (kani::any(), kani::any());
    let ca = crate::coroutine::__verif_harness_c13_reexp_rs::mk_sched_co(a);
    let cb = crate::coroutine::__verif_harness_c13_reexp_rs::mk_sched_co(b);
    ca.state.set(CoroutineState::Syscall((), na, SyscallState::Suspend(ta)));
    cb.state.set(CoroutineState::Syscall((), nb, SyscallState::Suspend(tb)));
    let _ = s.syscall.insert(a, ca);
    let _ = s.syscall.insert(b, cb);
    let t: u64 = kani::any(); // the token decoded from the readiness event
    unsafe { NPUSHED = 0; }
    s.try_resume(t);
    unsafe {
        if t == a || t == b {
            kani::assert(NPUSHED == 1 && PUSHED[0] == t, "C20.readiness_requeues_exactly_the_coroutine_registered_under_the_token");
            kani::assert(PUSHED_CALLBACK[0], "C20.requeued_waiter_is_marked_as_answered_by_the_event");
            kani::assert(!s.syscall.contains_key(&t), "C20.requeued_waiter_leaves_the_wait_table");
            let other = if t == a { b } else { a };
            let still = match s.syscall.get(&other) { Some(e) => matches!(e.value().state(), CoroutineState::Syscall(_, _, SyscallState::Suspend(_))), None => false };
            kani::assert(still, "C20.other_waiter_is_neither_resumed_nor_changed");
        } else {
            kani::assert(NPUSHED == 0 && s.syscall.contains_key(&a) && s.syscall.contains_key(&b), "C20.unknown_token_resumes_nobody");
        }
        kani::cover!(t == b, "C20.cover_second_waiter_resumed");
    }
    std::mem::forget(s);
}

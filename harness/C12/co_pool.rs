//! C12 — pool lifecycle: Running -> Stopping -> Stopped only; submissions rejected once stopping begins;
//! every registered waiter settled by the final clean-up. Child of co_pool (private fields visible).
//! The pool is built by the REAL CoroutinePool::new (bean factory, scheduler, global queues, local queue).
use super::*;
include!("/verif/harness/common/prelude.rs");

/// Condvar::notify_one ends in a futex system call; waking is not observable in a single-threaded obligation
/// (the released flag is what the obligation checks)
fn notify_one_stub(_c: &Condvar) {}

fn any_pool_state() -> PoolState {
    let k: u8 = kani::any();
    kani::assume(k < 3);
    match k { 0 => PoolState::Running, 1 => PoolState::Stopping, _ => PoolState::Stopped }
}
fn rank(s: PoolState) -> u8 { match s { PoolState::Running => 0, PoolState::Stopping => 1, PoolState::Stopped => 2 } }

/// O12.1: the two lifecycle operations from ANY state: the state only ever moves one step forward along
/// Running -> Stopping -> Stopped, a refused call changes nothing.
#[kani::proof]
#[kani::unwind(4)]
#[kani::stub(catch_unwind, cu_stub)]
#[kani::stub(std::fmt::format, fmt_stub)]
fn c12_lifecycle_step() {
    let pool = CoroutinePool::new(String::new(), 4096, 0, 2, 0);
    let cur = any_pool_state();
    pool.state.set(cur);
    let which: bool = kani::any();
    let r = if which { pool.stopping() } else { pool.stopped() };
    let ok = r.is_ok();
    std::mem::forget(r);
    let after = pool.state();
    kani::assert(after == cur || rank(after) == rank(cur) + 1, "C12.state_moves_one_step_forward_only");
    if !ok { kani::assert(after == cur, "C12.refused_transition_changes_nothing"); }
    if which {
        if cur == PoolState::Running { kani::assert(ok && after == PoolState::Stopping, "C12.running_to_stopping_is_taken"); }
        if cur == PoolState::Stopped { kani::assert(!ok && after == PoolState::Stopped, "C12.stopped_pool_cannot_go_back_to_stopping"); }
    } else {
        if cur == PoolState::Stopping { kani::assert(ok && after == PoolState::Stopped, "C12.stopping_to_stopped_is_taken"); }
        if cur == PoolState::Running { kani::assert(!ok && after == PoolState::Running, "C12.running_pool_cannot_skip_to_stopped"); }
    }
    kani::cover!(ok && after != cur, "C12.cover_some_edge_taken");
    kani::cover!(!ok, "C12.cover_some_refusal");
    std::mem::forget(pool);
}

/// O12.2: once stopping has begun a submission is rejected and touches nothing: no task object is even created
/// (Task::new is replaced by a counting stand-in), queue / maps / state are as before.
#[kani::proof]
#[kani::unwind(4)]
#[kani::stub(catch_unwind, cu_stub)]
#[kani::stub(std::fmt::format, fmt_stub)]
#[kani::stub(crate::co_pool::task::Task::new, crate::co_pool::task::__verif_harness_common_task_mk_rs::MT::new)]
fn c12_submit_rejected_after_stop_begins() {
    let pool = CoroutinePool::new(String::new(), 4096, 0, 2, 0);
    let st = if kani::any() { PoolState::Stopping } else { PoolState::Stopped };
    pool.state.set(st);
    let before_len = pool.task_queue.len();
    let r = pool.submit_task(Some(String::new()), |_| None, None, None);
    let ok = r.is_ok();
    std::mem::forget(r);
    kani::assert(!ok, "C12.submit_rejected_once_stopping_begins");
    kani::assert(unsafe { crate::co_pool::task::__verif_harness_common_task_mk_rs::NEW_CALLS } == 0, "C12.rejected_submit_creates_no_task");
    kani::assert(pool.task_queue.len() == before_len && pool.task_queue.is_empty(), "C12.rejected_submit_leaves_queue_untouched");
    kani::assert(pool.waits.is_empty() && pool.results.is_empty() && pool.no_waits.is_empty(), "C12.rejected_submit_leaves_maps_untouched");
    kani::assert(pool.state() == st, "C12.rejected_submit_leaves_state");
    std::mem::forget(pool);
}

/// O12.3: after the final clean-up every task id that had a registered waiter has an error result, its
/// condition flag is cleared (the waiter is released) and it is no longer registered.
#[kani::proof]
#[kani::unwind(5)]
#[kani::stub(catch_unwind, cu_stub)]
#[kani::stub(std::fmt::format, fmt_stub)]
#[kani::stub(std::sync::Condvar::notify_one, notify_one_stub)]
fn c12_clean_settles_every_waiter() {
    let mut pool = CoroutinePool::new(String::new(), 4096, 0, 2, 0);
    pool.state.set(PoolState::Stopped);
    let n: usize = kani::any();
    kani::assume(n <= 2);
    let ids: [u64; 2] = [kani::any(), kani::any()];
    kani::assume(ids[0] != ids[1]);
    let arcs = [Arc::new((Mutex::new(true), Condvar::new())), Arc::new((Mutex::new(true), Condvar::new()))];
    let mut i = 0;
    while i < n { let _ = pool.waits.insert(ids[i], arcs[i].clone()); i += 1; }
    pool.do_clean();
    let mut i = 0;
    while i < n {
        let has_err = match pool.results.get(&ids[i]) { Some(r) => r.value().is_err(), None => false };
        kani::assert(has_err, "C12.waiter_of_a_task_that_will_never_run_gets_an_error");
        kani::assert(!*arcs[i].0.lock().unwrap(), "C12.waiter_is_released");
        kani::assert(!pool.waits.contains_key(&ids[i]), "C12.waiter_is_unregistered");
        i += 1;
    }
    kani::cover!(n == 2, "C12.cover_two_waiters");
    std::mem::forget(pool);
}

// ---------------------------------------------------------------------------------------------- stop()
// O12.4 (modular): `stop` / `do_stop` with the scheduling rounds represented by their contract ("runs queued tasks for
// a while; workers may finish; may fail"): whenever stop reports success the pool is Stopped and every thread that
// was joining a task is settled - whether or not work was still running when the rounds ended.
static mut ROUNDS: usize = 0x7701;
static mut SCHED_FAILS: bool = false;
static mut WORKERS_FINISH: bool = false;
static mut QUEUE_EMPTY_ANSWER: bool = true; // whatever the task queue answers to is_empty() (either, harness's choice)
mod stop_mirror {
    use super::{ROUNDS, SCHED_FAILS, WORKERS_FINISH, VERIF_NOW, QUEUE_EMPTY_ANSWER};
    use crate::co_pool::CoroutinePool;
    use crate::common::ordered_work_steal::OrderedLocalQueue;
    use std::fmt::Debug;
    pub(super) struct MQ<'l, T: Debug>(std::marker::PhantomData<&'l T>);
    impl<'l, T: Debug> MQ<'l, T> {
        pub(super) fn is_empty(_q: &OrderedLocalQueue<'l, T>) -> bool { unsafe { QUEUE_EMPTY_ANSWER } }
    }
    use std::sync::atomic::Ordering;
    pub(super) struct MP<'p>(std::marker::PhantomData<&'p ()>);
    impl<'p> MP<'p> {
        pub(super) fn try_timeout_schedule_task(p: &mut CoroutinePool<'p>, _timeout_time: u64) -> std::io::Result<u64> {
            unsafe {
                ROUNDS += 1;
                if SCHED_FAILS { return Err(std::io::ErrorKind::Other.into()); }
                if WORKERS_FINISH { p.running.store(0, Ordering::Release); }
                if ROUNDS >= 2 { VERIF_NOW = u64::MAX; } // the stated bound: the time limit is reached by the second round
                Ok(0)
            }
        }
    }
}
fn sleep_stub(_d: Duration) {}

#[kani::proof]
#[kani::unwind(5)]
#[kani::stub(catch_unwind, cu_stub)]
#[kani::stub(std::fmt::format, fmt_stub)]
#[kani::stub(std::sync::Condvar::notify_one, notify_one_stub)]
#[kani::stub(std::thread::sleep, sleep_stub)]
#[kani::stub(crate::common::now, now_stub)]
#[kani::stub(crate::co_pool::CoroutinePool::try_timeout_schedule_task, stop_mirror::MP::try_timeout_schedule_task)]
#[kani::stub(crate::common::ordered_work_steal::OrderedLocalQueue::is_empty, stop_mirror::MQ::is_empty)]
fn c12_stop_settles_every_waiter() {
    let mut pool = CoroutinePool::new(String::new(), 4096, 0, 2, 0);
    let st = any_pool_state();
    pool.state.set(st);
    let running: usize = kani::any();
    kani::assume(running <= 2);
    pool.running.store(running, Ordering::Release);
    let id: u64 = kani::any();
    let arc = Arc::new((Mutex::new(true), Condvar::new()));
    let _ = pool.waits.insert(id, arc.clone());
    unsafe { ROUNDS = 0; SCHED_FAILS = kani::any(); WORKERS_FINISH = kani::any(); QUEUE_EMPTY_ANSWER = kani::any(); VERIF_NOW = 0; }
    let secs: u64 = kani::any();
    kani::assume(secs < 1_000_000);
    let r = pool.stop(Duration::from_secs(secs));
    let ok = r.is_ok();
    std::mem::forget(r);
    if ok {
        kani::assert(pool.state() == PoolState::Stopped, "C12.successful_stop_leaves_the_pool_stopped");
        let has_err = match pool.results.get(&id) { Some(r) => r.value().is_err(), None => false };
        kani::assert(has_err, "C12.successful_stop_settles_every_waiter");
        kani::assert(!*arc.0.lock().unwrap() && !pool.waits.contains_key(&id), "C12.successful_stop_releases_every_waiter");
    } else {
        kani::assert(unsafe { SCHED_FAILS }, "C12.stop_fails_only_if_scheduling_fails");
    }
    kani::cover!(ok && st == PoolState::Running && running == 0, "C12.cover_clean_drain_then_stop");
    kani::cover!(ok && running > 0 && !unsafe { WORKERS_FINISH }, "C12.cover_stop_by_time_limit");
    std::mem::forget(pool);
}

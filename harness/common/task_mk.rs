//! Child of co_pool::task: builds a Task as a struct literal (Task::new hashes the name with SipHash, which is
//! irrelevant to every obligation and expensive for CBMC). Every field the real constructor sets is set.
use super::*;

pub(crate) static mut BODY_RUNS: [usize; 4] = [0; 4];
pub(crate) static mut NEW_CALLS: usize = 0;

/// a task with the given id whose body records that it ran (slot = id & 3) and returns Some(id)
pub(crate) fn mk_task(id: u64, priority: Option<c_longlong>) -> Task<'static> {
    Task { id, name: String::new(), func: Box::new(move |_| { unsafe { BODY_RUNS[(id & 3) as usize] += 1; } Some(id as usize) }), param: None, priority }
}

/// stand-in for Task::new in obligations where no task may be created at all (mirror impl: Kani only accepts
/// a stub whose generics layout and parameter spelling match the original)
pub(crate) struct MT<'t>(std::marker::PhantomData<&'t ()>);
impl<'t> MT<'t> {
    pub(crate) fn new(name: String, func: impl FnOnce(Option<usize>) -> Option<usize> + 't, param: Option<usize>, priority: Option<c_longlong>) -> Task<'t> {
        unsafe { NEW_CALLS += 1; }
        Task { id: 7, name, func: Box::new(func), param, priority }
    }
}

// Shared by every Kani harness module (include!-d). Contracts for functions no obligation can execute.
#[allow(unused_imports)]
use std::panic::catch_unwind;
/// Kani has no unwinding: catch_unwind is the identity on non-panicking closures (a panic is a failed check).
#[allow(dead_code)]
fn cu_stub<F: FnOnce() -> R + std::panic::UnwindSafe, R>(f: F) -> std::thread::Result<R> { Ok(f()) }
/// format! is not the subject of any obligation; its result is never inspected by the verified functions.
#[allow(dead_code)]
fn fmt_stub(_: std::fmt::Arguments<'_>) -> String { String::new() }
#[allow(dead_code)]
static mut VERIF_NOW: u64 = 0;
/// the clock: any value the harness chose
#[allow(dead_code)]
fn now_stub() -> u64 { unsafe { VERIF_NOW } }

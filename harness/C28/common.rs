//! C28 — O28.1: get_timeout_time over all Durations x all clock values (loop-free, full domain).
use super::*;
include!("/verif/harness/common/prelude.rs");

#[kani::proof]
#[kani::stub(crate::common::now, now_stub)]
fn c28_timeout_time() {
    let secs: u64 = kani::any();
    let nanos: u32 = kani::any();
    kani::assume(nanos < 1_000_000_000);
    let now: u64 = kani::any();
    unsafe { VERIF_NOW = now; }
    let r = get_timeout_time(Duration::new(secs, nanos));
    let dn: u128 = (secs as u128) * 1_000_000_000 + nanos as u128;
    let max = u64::MAX as u128;
    let expect: u128 = if dn > max { max } else if dn + now as u128 > max { max } else { dn + now as u128 };
    kani::assert(r as u128 == expect, "C28.timeout_time_eq_saturating_spec");
    kani::assert(r >= now, "C28.timeout_time_not_before_now");
    kani::cover!(r == u64::MAX && dn <= max, "C28.cover_sum_saturates");
    kani::cover!(r < u64::MAX && dn > 0, "C28.cover_plain_sum");
}

/// Cross-check of the three std::time::Duration axioms the Verus proof of get_slices assumes, against the
/// real std code (NOT the deciding obligation for get_slices — Verus is). Order and equality: full domain
/// (ns order == lexicographic order on (secs, nanos) because nanos < 10^9). checked_sub: full domain through
/// the inverse `checked_add` (no 64x64 multiplication, which stalls the SAT solver), and through `as_nanos`
/// on secs < 2^16.
#[kani::proof]
fn c28_slices_std_axioms() {
    let a_s: u64 = kani::any(); let a_n: u32 = kani::any(); kani::assume(a_n < 1_000_000_000);
    let b_s: u64 = kani::any(); let b_n: u32 = kani::any(); kani::assume(b_n < 1_000_000_000);
    let a = Duration::new(a_s, a_n); let b = Duration::new(b_s, b_n);
    let a_gt_b = a_s > b_s || (a_s == b_s && a_n > b_n);
    let a_eq_b = a_s == b_s && a_n == b_n;
    kani::assert((a > b) == a_gt_b, "C28.axiom_partial_cmp_is_ns_order");
    kani::assert((a == b) == a_eq_b, "C28.axiom_eq_is_ns_eq");
    match a.checked_sub(b) {
        Some(d) => {
            kani::assert(a_gt_b || a_eq_b, "C28.axiom_checked_sub_some_iff_ge");
            kani::assert(d.checked_add(b) == Some(a), "C28.axiom_checked_sub_is_inverse_of_add");
        }
        None => kani::assert(!(a_gt_b || a_eq_b), "C28.axiom_checked_sub_none_iff_lt"),
    }
    kani::assert(Duration::ZERO.as_nanos() == 0 && Duration::ZERO == Duration::new(0, 0), "C28.axiom_zero");
}

//! C28 — O28.1: get_timeout_time over all Durations x all clock values (loop-free, full domain).
use super::*;
include!("/verif/harness/common/prelude.rs");

#[kani::proof]
#[kani::stub(crate::common::now, now_stub)]
fn c28_timeout_time() {
    let secs: u64 = kani::any();
    let nanos: u32 = kani::any();
    kani::assume(nanos < 1_000_000_000);
    let now: u64 = kani::any();
    unsafe { VERIF_NOW = now; }
    let r = get_timeout_time(Duration::new(secs, nanos));
    let dn: u128 = (secs as u128) * 1_000_000_000 + nanos as u128;
    let max = u64::MAX as u128;
    let expect: u128 = if dn > max { max } else if dn + now as u128 > max { max } else { dn + now as u128 };
    kani::assert(r as u128 == expect, "C28.timeout_time_eq_saturating_spec");
    kani::assert(r >= now, "C28.timeout_time_not_before_now");
    kani::cover!(r == u64::MAX && dn <= max, "C28.cover_sum_saturates");
    kani::cover!(r < u64::MAX && dn > 0, "C28.cover_plain_sum");
}

/// Cross-check of the three std::time::Duration axioms the Verus proof of get_slices assumes, against the
/// real std code (NOT the deciding obligation for get_slices — Verus is). Order and equality: full domain
/// (ns order == lexicographic order on (secs, nanos) because nanos < 10^9). checked_sub: full domain through
/// the inverse `checked_add` (no 64x64 multiplication, which stalls the SAT solver), and through `as_nanos`
/// on secs < 2^16.
#[kani::proof]
fn c28_slices_std_axioms() {
    let a_s: u64 = kani::any(); let a_n: u32 = kani::any(); kani::assume(a_n < 1_000_000_000);
    let b_s: u64 = kani::any(); let b_n: u32 = kani::any(); kani::assume(b_n < 1_000_000_000);
    let a = Duration::new(a_s, a_n); let b = Duration::new(b_s, b_n);
    let a_gt_b = a_s > b_s || (a_s == b_s && a_n > b_n);
    let a_eq_b = a_s == b_s && a_n == b_n;
    kani::assert((a > b) == a_gt_b, "C28.axiom_partial_cmp_is_ns_order");
    kani::assert((a == b) == a_eq_b, "C28.axiom_eq_is_ns_eq");
    match a.checked_sub(b) {
        Some(d) => {
            kani::assert(a_gt_b || a_eq_b, "C28.axiom_checked_sub_some_iff_ge");
            kani::assert(d.checked_add(b) == Some(a), "C28.axiom_checked_sub_is_inverse_of_add");
        }
        None => kani::assert(!(a_gt_b || a_eq_b), "C28.axiom_checked_sub_none_iff_lt"),
    }
    kani::assert(Duration::ZERO.as_nanos() == 0 && Duration::ZERO == Duration::new(0, 0), "C28.axiom_zero");
}

/// Kani companion to the Verus proof of get_slices, on the REAL function (no extraction): every total and every
/// slice > 0 over the full Duration domain, restricted to requests of at most three pieces (total < 3 x slice; the
/// restriction is on the piece count, not on magnitudes, so totals and slices near u64::MAX nanoseconds and near
/// Duration::MAX are included). No panic / overflow inside the function (Kani's own checks), at most three pieces,
/// each <= slice, all but the last == slice, and the pieces add up to the total. Bounded: <= 3 pieces.
#[kani::proof]
#[kani::unwind(5)]
fn c28_slices_few_pieces() {
    let t_s: u64 = kani::any(); let t_n: u32 = kani::any(); kani::assume(t_n < 1_000_000_000);
    let s_s: u64 = kani::any(); let s_n: u32 = kani::any(); kani::assume(s_n < 1_000_000_000);
    let total = Duration::new(t_s, t_n);
    let slice = Duration::new(s_s, s_n);
    kani::assume(slice > Duration::ZERO);
    if let Some(s3) = slice.checked_add(slice).and_then(|x| x.checked_add(slice)) { kani::assume(total < s3); }
    let r = get_slices(total, slice);
    kani::assert(r.len() <= 3, "C28.slices_at_most_ceil_total_over_slice_pieces");
    let mut sum = Some(Duration::ZERO);
    let mut i = 0;
    while i < r.len() {
        kani::assert(r[i] <= slice, "C28.every_piece_fits_the_slice");
        if i + 1 < r.len() { kani::assert(r[i] == slice, "C28.all_but_the_last_piece_are_full_slices"); }
        sum = sum.and_then(|x| x.checked_add(r[i]));
        i += 1;
    }
    kani::assert(sum == Some(total), "C28.pieces_add_up_to_the_total");
    if total == Duration::ZERO { kani::assert(r.is_empty(), "C28.zero_total_has_no_pieces"); }
    kani::cover!(r.len() == 3 && t_s > u64::MAX / 2, "C28.cover_three_pieces_of_a_huge_total");
    kani::cover!(r.len() == 1 && total == slice, "C28.cover_single_full_slice");
}

//! C28 — O28.3: get_time_limit over every timeval the kernel returns or accepts (tv_sec, tv_usec >= 0).
use super::*;

#[kani::proof]
fn c28_time_limit() {
    let sec: i64 = kani::any();
    let usec: i64 = kani::any();
    kani::assume(sec >= 0 && usec >= 0);
    let tv = libc::timeval { tv_sec: sec, tv_usec: usec };
    let r = get_time_limit(&tv);
    let max = u64::MAX as u128;
    let a: u128 = (sec as u128) * 1_000_000_000;
    let a = if a > max { max } else { a };
    let b: u128 = (usec as u128) * 1_000;
    let b = if b > max { max } else { b };
    let s = if a + b > max { max } else { a + b };
    if s == 0 {
        kani::assert(r == u64::MAX, "C28.zero_time_limit_means_unlimited");
    } else {
        kani::assert(r as u128 == s, "C28.time_limit_eq_saturating_spec");
    }
    kani::assert(r > 0, "C28.time_limit_never_zero");
    kani::cover!(sec == 0 && usec == 0, "C28.cover_zero_tv");
    kani::cover!(r == u64::MAX && sec > 0, "C28.cover_saturated");
}

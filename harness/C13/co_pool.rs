//! C13 — cancelling a task affects only that task: the queued branch. Child of co_pool; real pool (constructor
//! executed), real `try_run`, real `Task::run`, real `notify`; the task queue's pop is represented by "hands out
//! the task the harness queued" (queue order is C05), the current worker coroutine is a harness object.
use super::*;
use crate::co_pool::task::__verif_harness_common_task_mk_rs::{mk_task, BODY_RUNS};
include!("/verif/harness/common/prelude.rs");

fn notify_one_stub(_c: &Condvar) {}

static mut STUB_TASK: Option<Task<'static>> = None;
static mut CUR: *const std::ffi::c_void = std::ptr::null();
mod mirror {
    use super::{CUR, STUB_TASK};
    use crate::common::ordered_work_steal::OrderedLocalQueue;
    use crate::coroutine::Coroutine;
    use std::fmt::Debug;
    pub(super) struct MQ<'l, T: Debug>(std::marker::PhantomData<&'l T>);
    impl<'l, T: Debug> MQ<'l, T> {
        pub(super) fn pop(_q: &OrderedLocalQueue<'l, T>) -> Option<T> {
            let t = unsafe { STUB_TASK.take() }?;
            assert!(std::mem::size_of::<T>() == std::mem::size_of_val(&t));
            let r = unsafe { std::mem::transmute_copy::<_, T>(&t) };
            std::mem::forget(t);
            Some(r)
        }
    }
    pub(super) struct MC<'c, Param, Yield, Return>(std::marker::PhantomData<&'c (Param, Yield, Return)>);
    impl<'c, Param, Yield, Return> MC<'c, Param, Yield, Return> {
        pub(super) fn current<'current>() -> Option<&'current Coroutine<'c, Param, Yield, Return>> {
            unsafe { if CUR.is_null() { None } else { Some(&*CUR.cast::<Coroutine<'c, Param, Yield, Return>>()) } }
        }
    }
}

/// One `try_run` step from any cancel / waiter / detach state of the popped task `t`, with another task `o`
/// known to the same maps:
///  * t cancelled before it starts: its body does not run, the pending cancel is consumed;
///  * t not cancelled: its body runs exactly once (a pending cancel of ANOTHER task does not skip it);
///  * whoever waits for t is settled by this step: a result for t exists, the waiter is released and unregistered
///    (cancelled or not) - unless the result was detached with clean_task_result;
///  * nothing of the other task changes: its pending cancel, its running entry, its waiter, its result;
///  * no running entry is left behind for t.
#[kani::proof]
#[kani::unwind(5)]
#[kani::stub(catch_unwind, cu_stub)]
#[kani::stub(std::fmt::format, fmt_stub)]
#[kani::stub(std::sync::Condvar::notify_one, notify_one_stub)]
#[kani::stub(crate::common::ordered_work_steal::OrderedLocalQueue::pop, mirror::MQ::pop)]
#[kani::stub(crate::coroutine::Coroutine::current, mirror::MC::current)]
fn c13_try_run_step() {
    let pool = CoroutinePool::new(String::new(), 4096, 0, 2, 0);
    let t: u64 = kani::any();
    let o: u64 = kani::any();
    kani::assume(t != o && (t & 3) != (o & 3));
    let t_cancelled: bool = kani::any();
    let o_cancelled: bool = kani::any();
    let t_waited: bool = kani::any();
    let t_detached: bool = kani::any();
    kani::assume(!(t_waited && t_detached));
    let o_running_on: u64 = kani::any();
    if t_cancelled { let _ = CANCEL_TASKS.insert(t); }
    if o_cancelled { let _ = CANCEL_TASKS.insert(o); }
    let _ = RUNNING_TASKS.insert(o, o_running_on);
    let arc_t = Arc::new((Mutex::new(true), Condvar::new()));
    let arc_o = Arc::new((Mutex::new(true), Condvar::new()));
    if t_waited { let _ = pool.waits.insert(t, arc_t.clone()); }
    let _ = pool.waits.insert(o, arc_o.clone());
    if t_detached { let _ = pool.no_waits.insert(t); }
    let co = crate::coroutine::__verif_harness_c13_reexp_rs::mk_sched_co(77);
    unsafe { STUB_TASK = Some(mk_task(t, None)); BODY_RUNS = [0; 4]; CUR = (&raw const co).cast(); }
    let r = pool.try_run();
    kani::assert(r.is_some(), "C13.try_run_consumes_the_queued_task");
    let runs = unsafe { BODY_RUNS[(t & 3) as usize] };
    if t_cancelled {
        kani::assert(runs == 0, "C13.task_cancelled_before_start_never_runs");
        kani::assert(!CANCEL_TASKS.contains(&t), "C13.pending_cancel_is_consumed");
    } else {
        kani::assert(runs == 1, "C13.uncancelled_task_runs_exactly_once");
    }
    kani::assert(unsafe { BODY_RUNS[(o & 3) as usize] } == 0, "C13.no_other_task_body_runs");
    if t_waited {
        kani::assert(pool.results.contains_key(&t), "C13.waiter_of_the_consumed_task_gets_a_result");
        kani::assert(!*arc_t.0.lock().unwrap() && !pool.waits.contains_key(&t), "C13.waiter_of_the_consumed_task_is_released");
    }
    kani::assert(!RUNNING_TASKS.contains_key(&t), "C13.no_running_entry_left_for_the_consumed_task");
    // frame: the other task
    kani::assert(CANCEL_TASKS.contains(&o) == o_cancelled, "C13.other_tasks_pending_cancel_unchanged");
    kani::assert(RUNNING_TASKS.get(&o).map(|e| *e.value()) == Some(o_running_on), "C13.other_tasks_running_entry_unchanged");
    kani::assert(*arc_o.0.lock().unwrap() && pool.waits.contains_key(&o) && !pool.results.contains_key(&o), "C13.other_tasks_waiter_untouched");
    kani::cover!(t_cancelled && t_waited, "C13.cover_cancelled_task_with_waiter");
    kani::cover!(!t_cancelled && t_detached, "C13.cover_detached_task_runs");
    kani::cover!(!t_cancelled && o_cancelled, "C13.cover_other_tasks_cancel_pending");
    unsafe { CUR = std::ptr::null(); }
    std::mem::forget(co);
    std::mem::forget(pool);
}

//! C13 — helper in coroutine::korosensei: a schedulable coroutine as a struct literal (see harness/C07/korosensei.rs),
//! only its `id` matters to the pool (RUNNING_TASKS maps task id -> coroutine id).
use super::*;
use crate::common::constants::CoroutineState;

pub(crate) fn mk_sched_co(id: u64) -> Coroutine<'static, (), (), Option<usize>> {
    let stack = DefaultStack::new(4096).unwrap();
    let info = StackInfo { stack_top: stack.base().get(), stack_bottom: stack.limit().get() };
    Coroutine {
        id,
        name: String::new(),
        inner: corosensei::Coroutine::with_stack(stack, |_, ()| Ok(None)),
        state: Cell::new(CoroutineState::Running),
        stack_infos: UnsafeCell::new(VecDeque::from([info])),
        listeners: VecDeque::new(),
        local: Default::default(),
        priority: None,
    }
}

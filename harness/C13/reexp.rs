//! C13 — re-export (child of `coroutine`, which can see its private `korosensei` module)
pub(crate) use super::korosensei::__verif_harness_c13_mkco_rs::mk_sched_co;

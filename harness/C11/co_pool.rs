//! C11 — the pool's reported running size equals the number of live worker coroutines and never exceeds the
//! maximum. Child of co_pool (private fields visible); the pool is built by the REAL CoroutinePool::new.
//! The counter changes at two sites only: `CoroutinePool::submit_co` (+1 per created worker) and the creator
//! listener (-1 per worker that ended). Both are verified here against a ghost count of live workers; creating a
//! coroutine (Scheduler::submit_co: stack allocation, uuid, String) is represented by its contract:
//! it creates exactly one worker and answers Ok(id), or creates none and answers Err.
use super::*;
use crate::co_pool::creator::CoroutineCreator;
use crate::common::constants::{CoroutineState, SyscallName, SyscallState};
use crate::coroutine::listener::Listener;
include!("/verif/harness/common/prelude.rs");

static mut CREATED: usize = 0x7401; // workers the scheduler really created during the call under test
static mut CREATE_CALLS: usize = 0x7402;
static mut CREATE_FAILS: bool = false; // whether creation fails (mmap failure, absurd stack size, ...)
static mut QUEUE_EMPTY: bool = true; // what the task queue answers to is_empty()
static mut CURRENT_POOL: *const std::ffi::c_void = std::ptr::null();

mod mirror {
    use super::{CREATED, CREATE_CALLS, CREATE_FAILS, CURRENT_POOL, QUEUE_EMPTY};
    use crate::co_pool::CoroutinePool;
    use crate::common::ordered_work_steal::OrderedLocalQueue;
    use crate::coroutine::suspender::Suspender;
    use crate::scheduler::Scheduler;
    use std::ffi::c_longlong;
    use std::fmt::Debug;
    pub(super) struct MS<'s>(std::marker::PhantomData<&'s ()>);
    impl<'s> MS<'s> {
        pub(super) fn submit_co(_s: &Scheduler<'s>, f: impl FnOnce(&Suspender<(), ()>, ()) -> Option<usize> + 'static, _stack_size: Option<usize>, _priority: Option<c_longlong>) -> std::io::Result<u64> {
            std::mem::forget(f);
            unsafe {
                CREATE_CALLS += 1;
                if CREATE_FAILS { Err(std::io::ErrorKind::OutOfMemory.into()) } else { CREATED += 1; Ok(42) }
            }
        }
    }
    pub(super) struct MP<'p>(std::marker::PhantomData<&'p ()>);
    impl<'p> MP<'p> {
        pub(super) fn current<'current>() -> Option<&'current CoroutinePool<'p>> {
            unsafe { if CURRENT_POOL.is_null() { None } else { Some(&*CURRENT_POOL.cast::<CoroutinePool<'p>>()) } }
        }
    }
    pub(super) struct MQ<'l, T: Debug>(std::marker::PhantomData<&'l T>);
    impl<'l, T: Debug> MQ<'l, T> {
        pub(super) fn is_empty(_q: &OrderedLocalQueue<'l, T>) -> bool { unsafe { QUEUE_EMPTY } }
    }
}

fn reset(fails: bool, empty: bool) { unsafe { CREATED = 0; CREATE_CALLS = 0; CREATE_FAILS = fails; QUEUE_EMPTY = empty; } }

/// O11.1: submit_co from every counter / maximum: at the maximum it refuses and touches nothing; otherwise the
/// counter grows by exactly the number of workers really created (1 on success, 0 when creation fails).
#[kani::proof]
#[kani::unwind(4)]
#[kani::stub(catch_unwind, cu_stub)]
#[kani::stub(std::fmt::format, fmt_stub)]
#[kani::stub(crate::scheduler::Scheduler::submit_co, mirror::MS::submit_co)]
fn c11_submit_co_counts_created_workers() {
    let pool = CoroutinePool::new(String::new(), 4096, 0, 2, 0);
    let running: usize = kani::any();
    let max: usize = kani::any();
    kani::assume(running <= max); // the invariant: never above the maximum
    pool.running.store(running, Ordering::Release);
    pool.set_max_size(max);
    reset(kani::any(), true);
    let r = pool.submit_co(|_, ()| None, None, None);
    let ok = r.is_ok();
    std::mem::forget(r);
    let after = pool.get_running_size();
    unsafe {
        kani::assert(after as u128 == running as u128 + CREATED as u128, "C11.running_grows_by_exactly_the_workers_created");
        kani::assert(after <= max, "C11.running_never_exceeds_the_maximum");
        if running >= max { kani::assert(!ok && CREATE_CALLS == 0, "C11.at_the_maximum_no_worker_is_created"); }
        kani::assert(ok == (CREATED == 1), "C11.submit_co_reports_whether_a_worker_exists");
        kani::cover!(ok, "C11.cover_worker_created");
        kani::cover!(!ok && CREATE_CALLS == 1, "C11.cover_creation_failed");
        kani::cover!(running == max, "C11.cover_at_maximum");
    }
    std::mem::forget(pool);
}

fn any_name() -> SyscallName { let k: u8 = kani::any(); match k { 0 => SyscallName::sleep, 1 => SyscallName::read, _ => SyscallName::write } }
fn any_sub() -> SyscallState { let k: u8 = kani::any(); match k { 0 => SyscallState::Executing, 1 => SyscallState::Suspend(kani::any()), 2 => SyscallState::Timeout, _ => SyscallState::Callback } }

/// O11.2: the creator listener, for every reported new state of a worker, every counter, every maximum, queue
/// empty or not, creation succeeding or failing: afterwards running == running before - (1 if that worker ended)
/// + (workers really created as replacements). It never goes below zero and never above the maximum.
#[kani::proof]
#[kani::unwind(4)]
#[kani::stub(catch_unwind, cu_stub)]
#[kani::stub(std::fmt::format, fmt_stub)]
#[kani::stub(crate::common::now, now_stub)]
#[kani::stub(crate::scheduler::Scheduler::submit_co, mirror::MS::submit_co)]
#[kani::stub(crate::co_pool::CoroutinePool::current, mirror::MP::current)]
#[kani::stub(crate::common::ordered_work_steal::OrderedLocalQueue::is_empty, mirror::MQ::is_empty)]
fn c11_listener_counts_ended_workers() {
    let pool = CoroutinePool::new(String::new(), 4096, 0, 2, 0);
    let running: usize = kani::any();
    let max: usize = kani::any();
    kani::assume(running <= max);
    pool.running.store(running, Ordering::Release);
    pool.set_max_size(max);
    reset(kani::any(), kani::any());
    unsafe { CURRENT_POOL = (&raw const pool).cast(); }
    let k: u8 = kani::any();
    let new_state: crate::scheduler::SchedulableCoroutineState = match k {
        0 => CoroutineState::Ready,
        1 => CoroutineState::Running,
        2 => CoroutineState::Suspend((), kani::any()),
        3 => CoroutineState::Syscall((), any_name(), any_sub()),
        4 => CoroutineState::Cancelled,
        5 => CoroutineState::Complete(kani::any()),
        _ => CoroutineState::Error("e"),
    };
    let ended = matches!(new_state, CoroutineState::Cancelled | CoroutineState::Complete(_) | CoroutineState::Error(_));
    kani::assume(!ended || running >= 1); // a worker that ends was counted (submit_co counted it when it was created)
    let local = crate::coroutine::local::CoroutineLocal::default();
    CoroutineCreator::default().on_state_changed(&local, CoroutineState::Running, new_state);
    let after = pool.get_running_size();
    unsafe {
        kani::assert(after as u128 + (if ended { 1 } else { 0 }) == running as u128 + CREATED as u128, "C11.running_is_live_workers_after_a_state_report");
        kani::assert(after <= max, "C11.running_never_exceeds_the_maximum");
        kani::assert(CREATED <= 1, "C11.at_most_one_replacement_per_report");
        // (C12, accepted work is not stranded) a worker that ends abnormally while tasks are queued is replaced
        // whenever a replacement can be created: the ended worker is counted out first, so there is room
        let abnormal = matches!(new_state, CoroutineState::Cancelled | CoroutineState::Error(_));
        if abnormal && !QUEUE_EMPTY && !CREATE_FAILS { kani::assert(CREATED == 1, "C12.worker_lost_with_work_queued_is_replaced"); }
        kani::cover!(ended && CREATED == 1, "C11.cover_worker_replaced");
        kani::cover!(ended && CREATED == 0 && after as u128 + 1 == running as u128, "C11.cover_worker_ended_without_replacement");
        kani::cover!(!ended && CREATED == 1, "C11.cover_pool_grows_on_suspend");
        CURRENT_POOL = std::ptr::null();
    }
    std::mem::forget(local);
    std::mem::forget(pool);
}

// C06 / O6.1b — fairness lemma over the tick sequence (Verus, unbounded).
// The Kani obligations C06.tick_returns_counter_plus_one_mod_2_32 / C06.tick_leaves_the_counter_at_the_returned_value
// prove on the real `tick()` of both local queues that one call maps the counter c to next_tick(c) and returns
// that value. This file proves, for the sequence so defined and EVERY start value, that among any 61 consecutive
// ticks one is a multiple of 61 (also across the wrap to 0), i.e. every local queue consults the shared queue
// first at least once in any 61 consecutive pops.
use vstd::prelude::*;
verus! {

pub open spec fn next_tick(c: int) -> int { (c + 1) % 0x1_0000_0000 }

pub open spec fn tick_n(c: int, n: nat) -> int
    decreases n
{ if n == 0 { c } else { next_tick(tick_n(c, (n - 1) as nat)) } }

proof fn lemma_tick_n(c: int, n: nat)
    requires 0 <= c < 0x1_0000_0000,
    ensures tick_n(c, n) == (c + n) % 0x1_0000_0000, 0 <= tick_n(c, n) < 0x1_0000_0000,
    decreases n
{
    if n > 0 {
        lemma_tick_n(c, (n - 1) as nat);
        assert(((c + (n - 1)) % 0x1_0000_0000 + 1) % 0x1_0000_0000 == (c + n) % 0x1_0000_0000) by (nonlinear_arith)
            requires 0 <= c, n >= 1;
    }
}

/// Among any 61 consecutive ticks at least one is a multiple of 61 (including across the wrap to 0).
proof fn lemma_fair(c: int)
    requires 0 <= c < 0x1_0000_0000,
    ensures exists|k: nat| 1 <= k <= 61 && #[trigger] tick_n(c, k) % 61 == 0,
{
    if c + 61 >= 0x1_0000_0000 {
        let k = (0x1_0000_0000 - c) as nat;
        lemma_tick_n(c, k);
        assert(tick_n(c, k) == 0);
    } else {
        let r = (c + 1) % 61;
        let k: nat = if r == 0 { 1 } else { (1 + (61 - r)) as nat };
        lemma_tick_n(c, k);
        assert((c + k) % 61 == 0) by (nonlinear_arith)
            requires r == (c + 1) % 61, k == (if r == 0 { 1 } else { 1 + (61 - r) }), c >= 0;
        assert(tick_n(c, k) == c + k);
    }
}

/// the executable shape of the real tick() (wrapping increment with the explicit reset at u32::MAX) agrees with next_tick
fn tick_model(c: u32) -> (r: u32)
    ensures r as int == next_tick(c as int),
{
    if c == u32::MAX { 0 } else { c + 1 }
}

} // verus!
fn main() {}

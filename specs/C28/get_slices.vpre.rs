// C28 / O28.2 — Verus preamble for common::get_slices (the function text is extracted from /repo on every run).
use vstd::prelude::*;
use std::time::Duration;
verus! {

pub mod spec {
    use vstd::prelude::*;
    use std::time::Duration;

    /// abstract value of a Duration: its length in nanoseconds (a natural number; Duration has no negative values)
    pub uninterp spec fn dur_ns(d: Duration) -> nat;

    pub open spec fn sum_ns(s: Seq<Duration>) -> nat
        decreases s.len()
    {
        if s.len() == 0 { 0 } else { sum_ns(s.drop_last()) + dur_ns(s.last()) }
    }

    pub broadcast proof fn lemma_sum_push(s: Seq<Duration>, d: Duration)
        ensures #[trigger] sum_ns(s.push(d)) == sum_ns(s) + dur_ns(d)
    {
        assert(s.push(d).drop_last() =~= s);
    }
}
use spec::*;
broadcast use spec::lemma_sum_push;

// ---- assumed contracts of std::time::Duration (trusted; cross-checked against the real std code by the Kani
// ---- harness c28_slices_std_axioms)
pub assume_specification[ Duration::checked_sub ](a: Duration, b: Duration) -> (r: Option<Duration>)
    ensures
        dur_ns(a) >= dur_ns(b) ==> r is Some && dur_ns(r->0) == dur_ns(a) - dur_ns(b),
        dur_ns(a) < dur_ns(b) ==> r is None;

pub assume_specification[ <Duration as PartialOrd>::partial_cmp ](a: &Duration, b: &Duration) -> (r: Option<core::cmp::Ordering>)
    ensures r == Some(if dur_ns(*a) < dur_ns(*b) { core::cmp::Ordering::Less } else if dur_ns(*a) == dur_ns(*b) { core::cmp::Ordering::Equal } else { core::cmp::Ordering::Greater });

pub assume_specification[ <Duration as PartialEq>::eq ](a: &Duration, b: &Duration) -> (r: bool)
    ensures r == (dur_ns(*a) == dur_ns(*b));

/// `Duration::ZERO` (an associated const of an external type is not expressible): the one declared rewrite
#[verifier::external_body]
fn dur_zero() -> (r: Duration) ensures dur_ns(r) == 0 { Duration::ZERO }

/*@EXTRACTED@*/

} // verus!
fn main() {}

"""Mechanical extraction of a function's text from /repo and splicing of Verus clauses.

What is kept: the function's tokens from `fn` to the matching `}` byte for byte.
What is dropped: attributes and doc comments before the `fn` keyword, visibility (`pub`, `pub(crate)`).
What is changed: only the declared rewrites (exact substring, must occur exactly once), the declared
insertions (text placed immediately before an exact-substring anchor that must occur exactly once), the
return-value name `-> T` => `-> (name: T)`, clauses between signature and body, clauses between the
head and the body of loop ordinal k (source order of `while` / `loop` / `for` keywords inside the body).
Any anchor that is not found exactly once raises AnchorError => the run is INCONCLUSIVE (exit 2).
"""
import re


class AnchorError(Exception):
    pass


def _skip_trivia(s, i):
    """return index after a comment / string / char literal starting at i, or i if none starts here"""
    if s.startswith("//", i):
        j = s.find("\n", i)
        return len(s) if j < 0 else j
    if s.startswith("/*", i):
        depth, j = 1, i + 2
        while j < len(s) and depth:
            if s.startswith("/*", j):
                depth += 1; j += 2
            elif s.startswith("*/", j):
                depth -= 1; j += 2
            else:
                j += 1
        return j
    if s[i] == '"':
        j = i + 1
        while j < len(s):
            if s[j] == "\\":
                j += 2
            elif s[j] == '"':
                return j + 1
            else:
                j += 1
        return j
    if s[i] == "r" and re.match(r'r#*"', s[i:]):
        m = re.match(r'r(#*)"', s[i:])
        end = '"' + m.group(1)
        j = s.find(end, i + len(m.group(0)))
        return len(s) if j < 0 else j + len(end)
    if s[i] == "'":
        m = re.match(r"'(\\.[^']*|[^\\'])'", s[i:])
        if m:
            return i + len(m.group(0))
    return i


def match_brace(s, i):
    """s[i] == '{' -> index of the matching '}'"""
    assert s[i] == "{"
    depth, j = 0, i
    while j < len(s):
        k = _skip_trivia(s, j)
        if k != j:
            j = k
            continue
        if s[j] == "{":
            depth += 1
        elif s[j] == "}":
            depth -= 1
            if depth == 0:
                return j
        j += 1
    raise AnchorError("unbalanced braces")


def find_fn(src, name, nth=0):
    """text of the nth item `fn name` (signature .. closing brace), plus its (start, end) offsets"""
    hits = []
    i = 0
    pat = re.compile(r"\bfn\s+" + re.escape(name) + r"\b")
    while i < len(src):
        k = _skip_trivia(src, i)
        if k != i:
            i = k
            continue
        m = pat.match(src, i)
        if m and (i == 0 or not (src[i - 1].isalnum() or src[i - 1] == "_")):
            # find body start: first '{' at paren/bracket depth 0 after the signature
            j, d = m.end(), 0
            while j < len(src):
                k = _skip_trivia(src, j)
                if k != j:
                    j = k
                    continue
                c = src[j]
                if c in "([":
                    d += 1
                elif c in ")]":
                    d -= 1
                elif c == ";" and d == 0:
                    j = -1
                    break
                elif c == "{" and d == 0:
                    break
                j += 1
            if j > 0:
                e = match_brace(src, j)
                hits.append((i, j, e + 1))
                i = e + 1
                continue
        i += 1
    if len(hits) <= nth:
        raise AnchorError("fn %s (occurrence %d) not found" % (name, nth))
    return hits[nth]


def loops_in(body):
    """offsets (keyword start, body '{' offset) of while/loop/for in source order inside a body text"""
    out = []
    i = 0
    pat = re.compile(r"\b(while|loop|for)\b")
    while i < len(body):
        k = _skip_trivia(body, i)
        if k != i:
            i = k
            continue
        m = pat.match(body, i)
        if m and (i == 0 or not (body[i - 1].isalnum() or body[i - 1] == "_")):
            # the loop body is the first '{' at depth 0 that is not part of a struct literal: for the
            # functions handled here loop heads contain no braces, so the first '{' is the body
            j, d = m.end(), 0
            while j < len(body):
                k = _skip_trivia(body, j)
                if k != j:
                    j = k
                    continue
                c = body[j]
                if c in "([":
                    d += 1
                elif c in ")]":
                    d -= 1
                elif c == "{" and d == 0:
                    break
                j += 1
            out.append((i, j))
            i = m.end()
            continue
        i += 1
    return out


def once(text, needle, what):
    n = text.count(needle)
    if n != 1:
        raise AnchorError("%s: anchor %r occurs %d times (must be exactly 1)" % (what, needle, n))
    return text.index(needle)


def splice(src, spec):
    """spec: dict(fn, nth?, ret?, rewrites=[(a,b)], inserts=[(anchor,text)], requires=[], ensures=[],
    loops={k: dict(invariant=[], decreases=str)}, sig_rewrites=[(a,b)]) -> verus text of the function"""
    s, b, e = find_fn(src, spec["fn"], spec.get("nth", 0))
    sig = src[s:b]
    body = src[b:e]
    dropped = []
    for a, r in spec.get("sig_rewrites", []):
        once(sig, a, "signature rewrite")
        sig = sig.replace(a, r)
        dropped.append("signature rewrite %r -> %r" % (a, r))
    if spec.get("ret"):
        m = re.search(r"->\s*(.+?)\s*(where\b.*)?$", sig.strip(), re.S)
        if not m:
            raise AnchorError("no return type to name in " + spec["fn"])
        ty = m.group(1).strip()
        sig = sig.strip()[: m.start()] + "-> (%s: %s) " % (spec["ret"], ty) + (m.group(2) or "")
    # loops first (offsets are relative to the untouched body), from the last to the first
    lp = loops_in(body)
    for k in sorted(spec.get("loops", {}), reverse=True):
        if k >= len(lp):
            raise AnchorError("loop ordinal %d not found in %s (has %d loops)" % (k, spec["fn"], len(lp)))
        kw, br = lp[k]
        cl = spec["loops"][k]
        txt = ""
        if cl.get("invariant"):
            txt += "\n        invariant\n" + "".join("            %s,\n" % x for x in cl["invariant"])
        if cl.get("decreases"):
            txt += "        decreases %s,\n" % cl["decreases"]
        body = body[:br] + txt + "    " + body[br:]
    for a, r in spec.get("rewrites", []):
        once(body, a, "rewrite")
        body = body.replace(a, r)
        dropped.append("rewrite %r -> %r" % (a, r))
    for a, t in spec.get("inserts", []):
        i = once(body, a, "insert")
        body = body[:i] + t + "\n        " + body[i:]
    if spec.get("prologue"):
        body = "{\n    " + spec["prologue"] + body[1:]
    clauses = ""
    if spec.get("requires"):
        clauses += "\n    requires\n" + "".join("        %s,\n" % x for x in spec["requires"])
    if spec.get("ensures"):
        clauses += "\n    ensures\n" + "".join("        %s,\n" % x for x in spec["ensures"])
    return sig.rstrip() + clauses + body, dropped, src[s:e]

"""Native replay: build the UNMODIFIED crate with its REAL dependencies (no shims, no stubs) plus one appended
`#[cfg(verif_replay)] mod` line, and run one #[test] that feeds the counterexample through the real function."""
import os, re, shutil
import core


def run_test(pid, modfile, target, test_name, env=None, timeout=900):
    cfg = dict(shims=[], inject=[(modfile, target, "verif_replay")])
    root, dst = core.make_scratch("%s-native-%d" % (pid, os.getpid()), cfg)
    try:
        e = {"RUSTFLAGS": "--cfg verif_replay --cap-lints warn", "CARGO_NET_OFFLINE": "true",
             "CARGO_TARGET_DIR": os.path.join(core.SCRATCH_ROOT, "native-target"), "CARGO_TERM_COLOR": "never"}
        if env:
            e.update(env)
        cmd = ["cargo", "test", "--offline", "-p", "open-coroutine-core", "--no-default-features", "--features",
               "syscall", "--lib", test_name, "--", "--nocapture", "--test-threads", "1"]
        rc, out, wall, to = core.sh(cmd, cwd=dst, env=e, timeout=timeout)
        return rc, out
    finally:
        core.drop_scratch(root)


def verdict(rc, out, extra=None):
    lines = [l for l in out.splitlines() if "VERIF-REPLAY" in l]
    rep = None
    if any("VERIF-REPLAY-REPRODUCED" in l for l in lines):
        rep = True
    elif any("VERIF-REPLAY-NOT-REPRODUCED" in l for l in lines):
        rep = False
    d = dict(reproduced=rep, lines=lines, rc=rc)
    if rep is None:
        d["note"] = "native replay gave no verdict: " + out[-600:]
    if extra:
        d.update(extra)
    return d

"""Driver core: scratch copy of /repo, harness injection, Kani / Verus runs, verdicts, evidence.

Verdicts (DESIGN.md 3.4):
  exit 0  every registered obligation discharged (or failing ones are listed known findings)
  exit 1  VIOLATION property=<id> replay=<path>   -- definite negative verdict of the verifier
  exit 2  INCONCLUSIVE property=<id> reason=...    -- never an alarm
"""
import json, os, re, shutil, subprocess, sys, time, hashlib, signal

VERIF = os.path.dirname(os.path.dirname(os.path.abspath(__file__)))
REPO = os.environ.get("VERIF_REPO", "/repo")
SCRATCH_ROOT = os.environ.get("VERIF_SCRATCH", os.path.join(VERIF, ".scratch"))
NCPU = os.cpu_count() or 4

KANI_BASE = ["cargo", "kani", "-Z", "stubbing", "-Z", "c-ffi", "-Z", "unstable-options", "-Z", "mem-predicates",
             "--ignore-global-asm", "--no-default-features", "--features", "syscall"]


class Inconclusive(Exception):
    pass


def log(*a):
    print(*a, file=sys.stderr, flush=True)


def sh(cmd, cwd=None, env=None, timeout=None, mem_gb=None):
    """run, return (rc, combined output, wall seconds, timed_out)"""
    t0 = time.time()
    e = dict(os.environ)
    if env:
        e.update(env)
    pre = None
    if mem_gb:
        import resource

        def pre():
            os.setsid()
            lim = int(mem_gb * (1 << 30))
            resource.setrlimit(resource.RLIMIT_AS, (lim, lim))
    else:
        pre = os.setsid
    p = subprocess.Popen(cmd, cwd=cwd, env=e, stdout=subprocess.PIPE, stderr=subprocess.STDOUT,
                         preexec_fn=pre, text=True, errors="replace")
    try:
        out, _ = p.communicate(timeout=timeout)
        return p.returncode, out, time.time() - t0, False
    except subprocess.TimeoutExpired:
        try:
            os.killpg(p.pid, signal.SIGKILL)
        except Exception:
            pass
        out, _ = p.communicate()
        return -9, out, time.time() - t0, True


# ----------------------------------------------------------------------------- scratch copy

def make_scratch(pid_tag, cfg):
    """Copy /repo's current working tree (no target/, no .git) and add -- never edit -- harness hooks."""
    os.makedirs(SCRATCH_ROOT, exist_ok=True)
    root = os.path.join(SCRATCH_ROOT, pid_tag)
    if os.path.exists(root):
        shutil.rmtree(root)
    os.makedirs(root)
    dst = os.path.join(root, "repo")
    rc, out, _, _ = sh(["rsync", "-a", "--exclude", "/target", "--exclude", ".git", REPO + "/", dst + "/"])
    if rc != 0:
        raise Inconclusive("rsync failed: " + out[-300:])
    # (a) dependency shims
    shims = cfg.get("shims", [])
    if shims:
        with open(os.path.join(dst, "Cargo.toml"), "a") as f:
            f.write("\n[patch.crates-io]\n")
            for s in shims:
                f.write('%s = { path = "%s" }\n' % (s, os.path.join(VERIF, "contracts", "shims", s)))
    with open(os.path.join(dst, ".cargo_verif_marker"), "w") as f:
        f.write("scratch copy made by /verif/check\n")
    os.makedirs(os.path.join(dst, ".cargo"), exist_ok=True)
    with open(os.path.join(dst, ".cargo", "config.toml"), "a") as f:
        f.write("\n[net]\noffline = true\n")
    # (b) harness modules: one appended line per target file, #[path] to /verif
    for i, inj in enumerate(cfg.get("inject", [])):
        hfile, target, cfgname = inj[0], inj[1], inj[2]
        vis = inj[3] + " " if len(inj) > 3 else ""
        tpath = os.path.join(dst, target)
        if not os.path.exists(tpath):
            raise Inconclusive("anchor file missing: " + target)
        habs = os.path.join(VERIF, hfile)
        modname = "__verif_" + re.sub(r"[^a-z0-9]", "_", hfile.lower())
        with open(tpath, "a") as f:
            f.write('\n#[cfg(%s)]\n#[path = "%s"]\n%smod %s;\n' % (cfgname, habs, vis, modname))
    # (c) crate-level feature gates when a harness needs them
    for target, line in cfg.get("crate_attrs", []):
        tpath = os.path.join(dst, target)
        src = open(tpath).read()
        open(tpath, "w").write(line + "\n" + src)
    return root, dst


def drop_scratch(root):
    if os.environ.get("VERIF_KEEP"):
        log("keeping scratch", root)
        return
    shutil.rmtree(root, ignore_errors=True)


# ----------------------------------------------------------------------------- Kani

CHECK_RE = re.compile(r"^Check (\d+): (.+)\n\t - Status: (\w+)\n\t - Description: \"((?:.|\n)*?)\"\n\t - Location: (.*)$", re.M)


def parse_terse(out):
    """-j N terse output: 'Thread k: Checking harness X...' then 'Thread k: \nVERIFICATION RESULT: ...' blocks"""
    recs = {}
    cur = {}  # thread -> harness short name
    if not re.search(r"^Thread \d+: ", out, flags=re.M):
        # -j 1: no thread tags; tag everything as thread 0
        out = re.sub(r"^(Checking harness |\s+- Stub: |VERIFICATION RESULT:)", r"Thread 0: \1", out, flags=re.M)
    # split into thread-tagged chunks
    chunks = re.split(r"^Thread (\d+): ", out, flags=re.M)
    for k in range(1, len(chunks), 2):
        th, body = chunks[k], chunks[k + 1]
        m = re.match(r"Checking harness (\S+?)\.\.\.", body)
        if m:
            cur[th] = m.group(1).split("::")[-1]
            recs[cur[th]] = dict(full=m.group(1), verdict=None, failed=None, total=None, covers=None, body="",
                                 time=None, stubs=[])
            continue
        if th not in cur:
            continue
        r = recs[cur[th]]
        m = re.match(r"\s*- Stub: (.*)", body)
        if m:
            r["stubs"].append(m.group(1).strip())
            continue
        r["body"] += body
        m = re.search(r"\*\* (\d+) of (\d+) failed", body)
        if m:
            r["failed"], r["total"] = int(m.group(1)), int(m.group(2))
        m = re.search(r"\*\* (\d+) of (\d+) cover properties satisfied", body)
        if m:
            r["covers"] = (int(m.group(1)), int(m.group(2)))
        m = re.search(r"^VERIFICATION:- (\w+)", body, re.M)
        if m:
            r["verdict"] = m.group(1)
        m = re.search(r"Verification Time: ([0-9.]+)s", body)
        if m:
            r["time"] = float(m.group(1))
    return chunks[0], recs


def parse_kani(out):
    """split combined output into per-harness records"""
    recs = {}
    parts = re.split(r"^(?:Thread \d+: )?Checking harness (\S+?)\.\.\.\s*$", out, flags=re.M)
    # parts[0] = build log; then name, body, name, body ...
    build = parts[0]
    for k in range(1, len(parts), 2):
        name, body = parts[k], parts[k + 1]
        checks = []
        for m in CHECK_RE.finditer(body):
            checks.append(dict(n=int(m.group(1)), cid=m.group(2), status=m.group(3), desc=m.group(4), loc=m.group(5)))
        verdict = None
        m = re.search(r"^VERIFICATION:- (\w+)", body, re.M)
        if m:
            verdict = m.group(1)
        vt = re.search(r"Verification Time: ([0-9.]+)s", body)
        recs[name.split("::")[-1]] = dict(full=name, checks=checks, verdict=verdict, body=body,
                                          time=float(vt.group(1)) if vt else None)
    return build, recs


def run_kani(dst, harnesses, package="open-coroutine-core", jobs=None, timeout=1800, extra=None, mem_gb=None,
             playback=False):
    """one cargo kani invocation for a list of harness names (sharing one build)"""
    cmd = list(KANI_BASE) + ["-p", package]
    for h in harnesses:
        cmd += ["--harness", h]
    if playback:  # incompatible with -j > 1; regular output lists every check
        cmd += ["--output-format", "regular", "-Z", "concrete-playback", "--concrete-playback=print"]
    else:
        cmd += ["--output-format", "terse", "-j", str(jobs or max(1, min(len(harnesses), NCPU)))]
    if extra:
        cmd += extra
    env = {"RUSTFLAGS": "--cap-lints warn", "CARGO_NET_OFFLINE": "true", "CARGO_TERM_COLOR": "never"}
    rc, out, wall, to = sh(cmd, cwd=dst, env=env, timeout=timeout, mem_gb=mem_gb or float(os.environ.get("VERIF_MEM_GB", "24")))
    return rc, out, wall, to, " ".join(cmd)


def classify_check(c, harness_files):
    """registered / generated-in-crate / foreign"""
    d = c["desc"]
    if d.startswith("SHIM-CONTRACT:"):
        return "named", "dependency_contract[" + re.sub(r"\s+", "_", d[len("SHIM-CONTRACT:"):].strip())[:70] + "]"
    m = re.match(r"(C\d\d[A-Za-z0-9_.]*)", d)
    if m and re.match(r"C\d\d\.", d):
        return "named", d.split()[0]
    loc = c["loc"]
    if any(h in loc for h in harness_files):
        return "harness", None
    if re.match(r"(core|hook|open-coroutine|macros)/src/", loc.strip()) and "/library/" not in loc:
        return "crate", None
    return "foreign", None


def extract_playback(body):
    """concrete values printed by --concrete-playback=print: list of byte vectors per kani::any()"""
    vals = []
    m = re.search(r"let concrete_vals: Vec<Vec<u8>> = vec!\[(.*?)\n\s*\];", body, re.S)
    if not m:
        return None
    for line in m.group(1).split("\n"):
        line = line.strip()
        mm = re.match(r"//\s*(.*)", line)
        if mm:
            vals.append({"value": mm.group(1)})
            continue
        mm = re.match(r"vec!\[(.*?)\],?", line)
        if mm and vals:
            vals[-1]["bytes"] = [int(x) for x in mm.group(1).split(",") if x.strip()]
        elif mm:
            vals.append({"bytes": [int(x) for x in mm.group(1).split(",") if x.strip()]})
    return vals


# ----------------------------------------------------------------------------- Verus

def run_verus(path, timeout=600):
    """returns (rc, diagnostics(stderr), wall, timed_out, json(stdout))"""
    t0 = time.time()
    try:
        p = subprocess.run(["verus", path, "--output-json", "--time", "--multiple-errors", "20"],
                           stdout=subprocess.PIPE, stderr=subprocess.PIPE, text=True, errors="replace", timeout=timeout)
    except subprocess.TimeoutExpired:
        return -9, "", time.time() - t0, True, None
    js = None
    try:
        js = json.loads(p.stdout)
    except Exception:
        js = None
    return p.returncode, p.stderr + ("" if js is not None else "\n[stdout]\n" + p.stdout[-2000:]), time.time() - t0, False, js


# ----------------------------------------------------------------------------- known findings

def load_known(pid):
    known, fixed = [], []
    p = os.path.join(VERIF, "known_findings.txt")
    if os.path.exists(p):
        for line in open(p):
            line = line.strip()
            if not line or line.startswith("#"):
                continue
            m = re.match(r"finding: property=(\S+) obligation=(\S+)(?: harness=(\S+))?\s*:?\s*(.*)", line)
            if m and m.group(1) == pid:
                known.append(dict(obligation=m.group(2), harness=m.group(3), text=m.group(4)))
            m = re.match(r"fixed: property=(\S+) (\S+) (.*)", line)
            if m and m.group(1) == pid:
                fixed.append(dict(commit=m.group(2), text=m.group(3)))
    return known, fixed


def evidence_dir():
    """evidence/<id>.json is the record of a full run of the registered command only: development runs
    (--harness restriction, tools/mutcheck.sh) are redirected so they can never leave a partial or
    mutated-tree record behind in the committed directory"""
    d = os.environ.get("VERIF_EVIDENCE_DIR")
    if not d and os.environ.get("VERIF_ONLY"):
        d = os.path.join(SCRATCH_ROOT, "partial-evidence")
    return d or os.path.join(VERIF, "evidence")


def write_evidence(pid, ev):
    d = evidence_dir()
    os.makedirs(d, exist_ok=True)
    p = os.path.join(d, pid + ".json")
    tmp = p + ".tmp%d" % os.getpid()
    with open(tmp, "w") as f:
        json.dump(ev, f, indent=1, sort_keys=False)
    os.replace(tmp, p)


def scan_trusted(files):
    """mechanical scan for assumptions in harness / spec / shim files"""
    pats = [r"#\[kani::stub\(([^)]*)\)\]", r"#\[no_mangle\]\s*\n?\s*pub (?:unsafe )?extern \"C\" fn (\w+)",
            r"kani::assume\(", r"external_body", r"assume_specification", r"\bassume\(", r"\badmit\("]
    found = {}
    for f in files:
        try:
            src = open(f).read()
        except Exception:
            continue
        rel = os.path.relpath(f, VERIF)
        for m in re.finditer(r"#\[kani::stub\(\s*([^,]+),\s*([^)]+)\)\]", src):
            found.setdefault("stub %s -> %s" % (m.group(1).strip(), m.group(2).strip()), set()).add(rel)
        for m in re.finditer(r"#\[no_mangle\]\s*pub (?:unsafe )?extern \"C\" fn (\w+)", src):
            found.setdefault("libc model %s" % m.group(1), set()).add(rel)
        n = len(re.findall(r"kani::assume\(", src))
        if n:
            found.setdefault("kani::assume x%d" % n, set()).add(rel)
        for kw in ("external_body", "assume_specification", "admit("):
            n = src.count(kw)
            if n:
                found.setdefault("%s x%d" % (kw, n), set()).add(rel)
        n = len(re.findall(r"(?<![:\w])assume\(", src))
        if n:
            found.setdefault("verus assume x%d" % n, set()).add(rel)
    return ["%s [%s]" % (k, ", ".join(sorted(v))) for k, v in sorted(found.items())]

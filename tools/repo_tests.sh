#!/bin/sh
# runs the repository's own suite (guard off) and prints a one-line summary; exit 0 iff no failure
cd /repo && cargo test --workspace --no-fail-fast --offline > /tmp/repo_tests.$$ 2>&1
rc=$?
ok=$(grep -a -c '\.\.\. ok$' /tmp/repo_tests.$$); bad=$(grep -a -c '\.\.\. FAILED' /tmp/repo_tests.$$)
echo "repo tests: rc=$rc ok=$ok failed=$bad"
[ $rc -ne 0 ] && grep -a -E 'FAILED|panicked' /tmp/repo_tests.$$ | head -20
rm -f /tmp/repo_tests.$$
exit $rc

#!/bin/sh
# usage: seedcheck.sh <patch.diff> <ID> [more check args]
# applies a seeded change to /repo, runs the check with evidence redirected, reverts /repo; prints verdict summary
p=$1; id=$2; shift
cd /repo && git apply "$p" || { echo "patch does not apply"; exit 3; }
cd /verif && VERIF_EVIDENCE_DIR=/verif/.scratch/mut-evidence ./check "$@" > /verif/.scratch/seedcheck.$$.out 2>&1; rc=$?
cd /repo && git checkout -- . && git clean -fdq core hook open-coroutine macros 2>/dev/null
grep -a -E "^(VIOLATION|INCONCLUSIVE|OK|KNOWN-FINDING|obligation failed)" /verif/.scratch/seedcheck.$$.out | cut -c1-300
rm -f /verif/.scratch/seedcheck.$$.out
echo "seedcheck $p rc=$rc"
exit $rc

#!/bin/bash
# usage: seedcheck.sh <patch.diff> <ID> [more check args]
# applies a seeded change in a throw-away worktree of /repo (never in /repo itself), runs the check against it with
# the evidence redirected, removes the worktree; prints the verdict lines
p=$1; id=$2; shift
tag=$(echo "$p" | tr -c 'A-Za-z0-9' '_')
wt=/tmp/sc_$tag
git -C /repo worktree remove --force $wt >/dev/null 2>&1
git -C /repo worktree add --detach $wt HEAD >/dev/null 2>&1 || { echo "cannot create worktree"; exit 3; }
( cd $wt && git apply "$p" ) || { echo "patch does not apply"; git -C /repo worktree remove --force $wt; exit 3; }
out=/verif/.scratch/seedcheck.$tag.out
cd /verif && VERIF_REPO=$wt VERIF_EVIDENCE_DIR=/verif/.scratch/mut-evidence ./check "$@" > $out 2>&1; rc=$?
git -C /repo worktree remove --force $wt
grep -a -E "^(VIOLATION|INCONCLUSIVE|OK|KNOWN-FINDING|obligation failed)" $out | cut -c1-260
echo "seedcheck $p $id rc=$rc"
exit $rc

#!/usr/bin/env python3
"""Regenerates MANIFEST.json from props/*.py (claimed) and props/not_applicable.json."""
import json, os, importlib.util, glob
HERE = os.path.dirname(os.path.dirname(os.path.abspath(__file__)))
props = [json.loads(l) for l in open(os.path.join(HERE, "properties.jsonl"))]
na = json.load(open(os.path.join(HERE, "props", "not_applicable.json")))
checks = []
claimed = set()
for p in props:
    pid = p["id"]
    f = os.path.join(HERE, "props", pid + ".py")
    if not os.path.exists(f):
        continue
    spec = importlib.util.spec_from_file_location("prop_" + pid, f)
    m = importlib.util.module_from_spec(spec); spec.loader.exec_module(m)
    c = m.CONFIG
    if not c.get("claimed", True):
        continue
    claimed.add(pid)
    mf = c["manifest"]
    checks.append(dict(
        property_id=pid,
        quick_cmd="./check %s --tier quick" % pid,
        thorough_cmd="./check %s --tier thorough" % pid,
        evidence_file="/verif/evidence/%s.json" % pid,
        replay_cmd_template="./check %s --replay {path}" % pid,
        engine="contracts",
        level_claimed=dict(category=c["level"], text=mf["text"], design_ref=mf.get("design_ref", "DESIGN.md section 4, " + pid)),
        level_note=mf["note"],
        technique=mf["technique"],
    ))
nal = []
for p in props:
    if p["id"] in claimed:
        continue
    if p["id"] not in na:
        raise SystemExit("property %s is neither claimed nor listed in props/not_applicable.json" % p["id"])
    nal.append(dict(property_id=p["id"], reason=na[p["id"]]))
man = dict(
    version=1,
    setup_cmd="true",
    hooks=dict(
        guard="kani",
        enable="no hook lives in /repo: every check copies /repo's working tree to /verif/.scratch/<id>-<pid>/repo and appends `#[cfg(kani)] #[path = \"/verif/harness/...\"] mod __verif_...;` lines (and a [patch.crates-io] table for dependency shims) there; cfg(kani) is set only by the Kani compiler",
        baseline_off_cmd="cd /repo && (cargo nextest run --workspace --no-fail-fast --test-threads 8 --offline || cargo test --workspace --no-fail-fast --offline)",
        source_commits=[],
        add_only=True,
    ),
    engines=[dict(name="contracts", path="/verif/check", serves_properties=sorted(claimed),
                  kind_free_text="contract-based deductive verification of the real code: Kani 0.68 function/harness contracts on the real crate (CBMC), Verus on functions extracted mechanically each run")],
    checks=checks,
    not_applicable=nal,
    notes="the thorough tier runs every quick unit plus deeper ones where they exist (C16/C17/C18: kernel scripts of up to six answers and three-entry recvmsg/sendmsg; C25: four-step histories); for the other properties both tiers run the same units; exit 0 = all obligations discharged; exit 1 + VIOLATION = a registered obligation got a definite negative verdict; exit 2 + INCONCLUSIVE = undecided (never an alarm). See DESIGN.md.",
)
json.dump(man, open(os.path.join(HERE, "MANIFEST.json"), "w"), indent=1)
print("claimed:", sorted(claimed), "n/a:", [x["property_id"] for x in nal])

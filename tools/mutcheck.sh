#!/bin/sh
# usage: mutcheck.sh <patch.diff> <ID> [more check args]   -- applies the patch to /repo, runs the check, reverts
p=$1; shift
cd /repo && git apply "$p" || { echo "patch does not apply"; exit 3; }
# evidence of a run on a mutated tree must never replace the committed record of the unchanged tree
cd /verif && VERIF_EVIDENCE_DIR=/verif/.scratch/mut-evidence ./check "$@"; rc=$?
cd /repo && git checkout -- . && git status --short | head -3
echo "mutcheck rc=$rc"
exit $rc

#!/bin/sh
# usage: mutcheck.sh <patch.diff> <ID> [more check args]   -- applies the patch to /repo, runs the check, reverts
p=$1; shift
cd /repo && git apply "$p" || { echo "patch does not apply"; exit 3; }
cd /verif && ./check "$@"; rc=$?
cd /repo && git checkout -- . && git status --short | head -3
echo "mutcheck rc=$rc"
exit $rc

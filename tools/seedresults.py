#!/usr/bin/env python3
"""Writes seeded/RESULTS.md: for every confirmed seeded change, the check that was run against it
(tools/seedcheck.sh <patch> <ID> ...: throw-away worktree of /repo, evidence redirected) and what it reported."""
import os, json
R = {
 "C07_a": ("C07", "caught", "C07.return_inside_syscall_state_is_an_error, C07.panic_inside_syscall_state_is_an_error"),
 "C07_b": ("C07", "caught", "C07.reported_change_is_a_documented_edge, C07.terminal_coroutine_never_runs_user_code_again, C07.user_code_runs_only_from_a_resumable_state"),
 "C09_a": ("C09", "caught", "C09.delay_request_does_not_outlive_its_yield"),
 "C09_b": ("C09", "missed", "the request is pushed by a new non-yielding function from the signal handler: outside the environment contract of the C09 units (thread-local accessors are not executable under Kani); signal timing is outside the technique"),
 "C12_a": ("C12", "caught (after adding the modular stop() unit)", "C12.successful_stop_settles_every_waiter"),
 "C12_b": ("C12", "missed", "event-loop thread exit condition: a schedule property, declared not decided in the C12 claim"),
 "C14_a": ("C14", "caught (after letting the caller be a coroutine in the timed-wait unit; before: exit 2, Kani ICE on the thread-local accessor)", "C14.timed_wait_returns_only_at_or_after_the_deadline"),
 "C14_b": ("C14", "caught", "C14.select_never_waits_less_than_requested"),
 "C19_a": ("C19", "caught", "C19.inv_after_setsockopt"),
 "C19_b": ("C19", "caught", "C19.limit_eq_current_option"),
 "C20_a": ("C20", "caught (after adding a unit)", "C20.event_decodes_to_the_waiter_that_registered_last"),
 "C20_b": ("C20", "caught (after adding a unit and a failing poll to the mio contract)", "C20.poll_guard_released_on_every_return"),
 "C21_a": ("C21", "caught", "C21 interest obligations (del_read/del_write step)"),
 "C21_b": ("C21", "caught", "C21.close_leaves_no_record, C21.shutdown_interest_as_specified"),
 "C25_a": ("C25", "caught (after adding the bounded 3-step history unit)", "C25.get_returns_stored_value, C25.get_mut_returns_stored_value"),
 "C25_b": ("C25", "caught (after adding the unit on the real Drop of Coroutine)", "C25.values_dropped_with_the_coroutine"),
 "C28_a": ("C28", "caught", "C28.timeout_time_eq_saturating_spec"),
 "C28_b": ("C28", "inconclusive (exit 2)", "the rewritten get_slices leaves the Verus subset; the Kani companion unit does not finish on the seeded code (64-bit symbolic division)"),
 "C16_a": ("C17", "caught (3-entry units)", "C17.range_already_transferred_or_out_of_order in c16_readv3 / c16_writev3"),
 "C16_b": ("C16", "caught", "C16.minus_one_only_if_nothing_moved (recvmsg, sendmsg)"),
 "C17_a": ("C17", "caught (3-entry units)", "C17.range_already_transferred_or_out_of_order"),
 "C17_b": ("C17", "caught (after making flags symbolic)", "C17.range_already_transferred_or_out_of_order (recvmsg)"),
 "C18_a": ("C18", "caught", "C18.blocking_mode_restored_on_return (readv, readv3)"),
 "C18_b": ("C18", "caught", "C18.nonblocking_descriptor_never_waits (connect, kernel answers EALREADY / EAGAIN)"),
 "C04_a": ("C04", "caught (after raising the push unit to capacity 4)", "C04.push_returns_from_every_reachable_state[unwinding assertion]"),
 "C04_b": ("C04", "missed", "needs shared len above the content, which only a lost update between two threads produces: interleavings are outside the technique"),
 "C05_a": ("C05", "missed / exit 2 before the shim gained range()", "new hidden state (scan hint) reachable only by a multi-step history; single-step induction over writable states does not include it"),
 "C05_b": ("C05", "caught (after adding the bucket clause to the invariant)", "C05.every_bucket_can_hold_the_local_capacity"),
 "C03_a": ("C03", "caught", "C03.shared_len_counts_the_items_it_holds / C03.push_adds_exactly_one_item"),
 "C03_b": ("C03", "caught", "C03.shared_len_counts_the_items_it_holds (p_pop_consultation_order, judged on the real injector)"),
 "C06_a": ("C06", "caught", "C06.every_61st_pop_serves_the_shared_queue_first"),
 "C06_b": ("C06", "missed (compiles since the local queues are built by their own constructor)", "new hidden field `rest`, armed only by a two-step history"),
 "C11_a": ("C11", "caught", "C11.running_grows_by_exactly_the_workers_created"),
 "C11_b": ("C11", "caught", "C11.running_is_live_workers_after_a_state_report"),
 "C13_a": ("C13", "caught", "C13.no_running_entry_left_for_the_consumed_task"),
 "C13_b": ("C13", "missed", "scheduler bookkeeping + SIGVTALRM path, declared not decided"),
 "C24_a": ("C24", "caught", "C24.fault_inside_the_stack_segments_is_not_reported_as_overflow"),
 "C24_b": ("C24", "caught (after adding the installation obligation)", "C24.fault_handler_runs_on_the_alternate_signal_stack"),
 "C07r2_a": ("C07", "caught", "C07.reported_change_is_a_documented_edge (syscall transition table)"),
 "C07r2_b": ("C07", "missed", "listener panics need unwinding, which Kani does not model (declared in the C07 claim)"),
 "C12r2_a": ("C12", "caught (after adding the obligation)", "C12.worker_lost_with_work_queued_is_replaced"),
 "C12r2_b": ("C12", "caught", "C12.successful_stop_settles_every_waiter (no-failing-input-found: the detailed re-run did not finish)"),
 "C19r2_a": ("C28", "caught by the C28 check; quiet under C19 by design (get_time_limit is a stand-in there)", "C28 time-limit obligations on the full timeval domain"),
 "C19r2_b": ("C19", "caught (after letting del_event fail in the close unit)", "C19.inv_after_close_no_stale_entry"),
 "C21r2_a": ("C21", "caught", "C21.close_leaves_no_record, C21.shutdown_interest_as_specified"),
 "C21r2_b": ("C21", "caught (after making the descriptor kind nondeterministic in the close unit)", "C21.close_leaves_no_record"),
 "C16r2_a": ("C17", "caught (3-entry units; same mechanism as C17_a)", "C17.range_already_transferred_or_out_of_order (c16_writev3)"),
 "C16r2_b": ("C16", "caught", "C16.return_value_is_total_bytes_moved, C16.minus_one_only_if_nothing_moved (write)"),
 "C18r2_a": ("C18", "caught", "C18.nonblocking_descriptor_never_waits (c16_recvmsg)"),
 "C18r2_b": ("C18", "caught (flags are symbolic)", "C18.blocking_mode_restored_on_return (c16_sendmsg)"),

 "C09r2_a": ("C09", "caught", "C09.delay_request_does_not_outlive_its_yield"),
 "C14r2_a": ("C14", "caught (coroutine caller explored since C14_a)", "C14.timed_wait_returns_only_at_or_after_the_deadline"),
 "C14r2_b": ("C14", "caught by the thorough tier only (unit added because of this seed); the quick tier misses it", "C14.select_never_waits_less_than_requested (c14_select_up_to_5s, 500 s; counterexample tv_usec = 4 718 591 replayed on the real hook: returned after 1.02 s instead of 4.72 s). Quick tier: {0 s, 4.5e6 us} clamped to just under 1 s is still more than the 143 ms its select units observe"),
 "C20r2_a": ("C20", "caught (after adding the wait_event unit)", "C20.every_round_polls_the_selector_once"),
 "C20r2_b": ("C21", "caught by the C21 check (the stale write record breaks its invariant); the C20 units do not observe records", "C21.close_leaves_no_record, C21.inv_after"),
 "C25r2_a": ("C25", "caught (after adding the zero-sized value unit)", "C25.values_dropped_with_owner"),
 "C25r2_b": ("C25", "missed", "needs std::thread::panicking() during unwinding, which Kani does not model"),
 "C28r2_a": ("C28", "caught", "C28.timeout_time_eq_saturating_spec / overflow check inside get_timeout_time"),
 "C28r2_b": ("C28", "inconclusive (exit 2)", "the closed-form rewrite has no loop (the Verus splice anchor is gone) and in the Kani companion unit the back end ends with status ERROR on every check (128-bit div_ceil/% exhausts the solver); undecided, never an alarm"),
 "C09r3_a": ("C09", "missed", "the change sits in the body of Suspender::until_with, which the C09 units represent by its transcribed contract `push, then yield` (thread_local! bodies with drop glue ICE Kani 0.68): a listed assumption, so a change inside it is invisible; OK with 4296/4296 obligations"),
 "C11r3_a": ("C11", "caught", "C11.running_is_live_workers_after_a_state_report (c11_listener_counts_ended_workers: new state Error, running not lowered)"),
 "C24r3_a": ("C24", "caught", "C24.in_bounds_iff_inside_some_segment (stack pointer == stack_bottom), C24.fault_inside_the_stack_segments_is_not_reported_as_overflow"),
}
HERE = os.path.dirname(os.path.dirname(os.path.abspath(__file__)))
rows = []
for d in sorted(os.listdir(os.path.join(HERE, "seeded"))):
    mp = os.path.join(HERE, "seeded", d, "meta.json")
    if not os.path.exists(mp):
        continue
    m = json.load(open(mp))
    chk, res, ob = R.get(d, ("?", "not run", ""))
    m["check_result"] = dict(check="./check %s (via tools/seedcheck.sh seeded/%s/patch.diff %s)" % (chk, d, chk), outcome=res, obligation_or_reason=ob)
    json.dump(m, open(mp, "w"), indent=1)
    rows.append((d, m["property_id"], chk, res, ob, m.get("needs_to_manifest", "")))
caught = sum(1 for r in rows if r[3].startswith("caught"))
with open(os.path.join(HERE, "seeded", "RESULTS.md"), "w") as f:
    f.write("# Seeded changes and what the checks report\n\n%d confirmed changes; %d caught (VIOLATION with the named obligation), %d missed or inconclusive.\n"
            "Every change compiles, passes the 45 tests, and fails its own demonstration (see each meta.json).\n\n" % (len(rows), caught, len(rows) - caught))
    f.write("| seed | breaks | check run | outcome | obligation that fired / why not |\n|---|---|---|---|---|\n")
    for r in rows:
        f.write("| %s | %s | %s | %s | %s |\n" % (r[0], r[1], r[2], r[3], r[4]))
print(len(rows), caught)

#!/bin/bash
# Shim conformance: the scenarios of contracts/conformance run natively against the real crates and under Kani
# against the shims. Prints one line per side; exit 0 iff both agree with every assertion.
set -u
S=/verif/.scratch/conformance.$$
rm -rf $S; mkdir -p $S
cp -r /verif/contracts/conformance $S/native
cp -r /verif/contracts/conformance $S/shim
cp /repo/Cargo.lock $S/native/Cargo.lock 2>/dev/null
cp /repo/Cargo.lock $S/shim/Cargo.lock 2>/dev/null
cat >> $S/shim/Cargo.toml <<EOT

[patch.crates-io]
crossbeam-deque = { path = "/verif/contracts/shims/crossbeam-deque" }
crossbeam-skiplist = { path = "/verif/contracts/shims/crossbeam-skiplist" }
st3 = { path = "/verif/contracts/shims/st3" }
dashmap = { path = "/verif/contracts/shims/dashmap" }
EOT
( cd $S/native && CARGO_NET_OFFLINE=true CARGO_TARGET_DIR=/verif/.scratch/native-target cargo test --offline 2>&1 | tail -15 ) > $S/native.log
n_ok=$(grep -c "^test .* ok$" $S/native.log)
echo "conformance native (real crates): $n_ok of 4 scenarios pass"
( cd $S/shim && CARGO_NET_OFFLINE=true cargo kani 2>&1 | grep -E "^VERIFICATION|Complete -|error" ) > $S/shim.log
s_ok=$(grep -c "VERIFICATION:- SUCCESSFUL" $S/shim.log)
echo "conformance shims (Kani): $s_ok of 4 scenarios verified"
cat $S/shim.log | tail -3
rc=0; [ "$n_ok" = 4 ] && [ "$s_ok" = 4 ] || rc=1
[ $rc = 0 ] || { cat $S/native.log | tail -20; }
rm -rf $S
exit $rc

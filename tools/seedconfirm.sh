#!/bin/bash
# usage: seedconfirm.sh <seed dir containing patch.diff demo.diff> [worktree]
# Confirms a seeded change in a scratch worktree of /repo: (1) demo passes on the unchanged tree, (2) demo fails with
# the change, (3) the existing suite still passes with the change. Prints one line per step and a final verdict.
d=$1; wt=${2:-/tmp/seedconf}
[ -d "$wt" ] || git -C /repo worktree add --detach "$wt" HEAD >/dev/null 2>&1
cd "$wt" || exit 3
git checkout -q --detach $(git -C /repo rev-parse HEAD) && git checkout -q -- . && git clean -fdq -e target
git apply "$d/demo.diff" || { echo "SEEDCONFIRM $d: demo.diff does not apply"; exit 3; }
tests=$(git status --short | grep -E '^\?\? .*tests/.*\.rs$|^\?\? .*tests/$' | sed 's/^?? //')
names=$(git status --short --untracked-files=all | grep -oE 'tests/[A-Za-z0-9_]+\.rs' | sed 's#tests/##; s#\.rs##' | sort -u)
[ -z "$names" ] && { echo "SEEDCONFIRM $d: cannot find the demo test name ($(git status --short | tr '\n' ' '))"; exit 3; }
args=""; for n in $names; do args="$args --test $n"; done
run_demo() { timeout 900 cargo test --workspace --offline $args -- --test-threads=1 > "$1" 2>&1; echo $?; }
r1=$(run_demo /verif/.scratch/seedconf/$(basename $(dirname $d))_$(basename $d).demo_unchanged.log)
git apply "$d/patch.diff" || { echo "SEEDCONFIRM $d: patch.diff does not apply"; exit 3; }
r2=$(run_demo /verif/.scratch/seedconf/$(basename $(dirname $d))_$(basename $d).demo_patched.log)
# existing suite with the change only (demo removed)
git apply -R "$d/demo.diff"
timeout 1500 cargo nextest run --workspace --no-fail-fast --test-threads 8 --offline > /verif/.scratch/seedconf/$(basename $(dirname $d))_$(basename $d).suite.log 2>&1; r3=$?
sum=$(grep -a "Summary" /verif/.scratch/seedconf/$(basename $(dirname $d))_$(basename $d).suite.log | tail -1)
git checkout -q -- . && git clean -fdq -e target
ok=no; [ "$r1" = 0 ] && [ "$r2" != 0 ] && [ "$r3" = 0 ] && ok=yes
echo "SEEDCONFIRM $d: demo_unchanged_rc=$r1 demo_patched_rc=$r2 suite_patched_rc=$r3 [$sum] demo=$names confirmed=$ok"

#!/opt/veriftools/pyvenv/bin/python
"""Validates MANIFEST.json and every committed evidence file; run before each commit.
Beyond the schemas: an evidence file must belong to a claimed property, come from a full run that
found nothing (violations == 0, nothing inconclusive, every unit discharged) and, for a proof-level
claim, have discharged == obligations."""
import json, sys, glob, os, jsonschema
man = json.load(open('/verif/MANIFEST.json'))
jsonschema.validate(man, json.load(open('/root/.vp/MANIFEST.schema.json')))
print('manifest ok')
claimed = {c['property_id']: c for c in man['checks']}
sch = json.load(open('/root/.vp/EVIDENCE.schema.json'))
bad = 0
seen = set()
for f in sorted(glob.glob('/verif/evidence/*.json')):
    ev = json.load(open(f))
    jsonschema.validate(ev, sch)
    pid = ev['property_id']
    seen.add(pid)
    cov = ev['coverage']
    errs = []
    if pid not in claimed:
        errs.append('property is not claimed in MANIFEST.json')
    elif claimed[pid]['level_claimed']['category'] != ev['level']:
        errs.append('level differs from MANIFEST')
    if os.path.basename(f) != pid + '.json':
        errs.append('file name does not match property_id')
    if ev['level'] == 'proof' and cov.get('discharged') != cov.get('obligations'):
        errs.append('discharged %s != obligations %s' % (cov.get('discharged'), cov.get('obligations')))
    if ev.get('violations'):
        errs.append('violations=%d' % ev['violations'])
    if cov.get('inconclusive'):
        errs.append('inconclusive reasons present')
    for u in cov.get('units', []):
        if u.get('verdict') != 'discharged':
            errs.append('unit %s verdict %s' % (u.get('unit'), u.get('verdict')))
    if errs:
        bad += 1
        print('BAD', f, '; '.join(errs))
    else:
        print('ok', f, 'obligations=%s units=%d' % (cov.get('obligations'), len(cov.get('units', []))))
for pid in claimed:
    if pid not in seen:
        bad += 1
        print('BAD no evidence file for claimed property', pid)
sys.exit(1 if bad else 0)

"""C16 — hooked socket I/O reports exactly the bytes it transferred (DESIGN.md 4, C16/C17/C18; bounded)."""
import os, sys
sys.path.insert(0, os.path.join(os.path.dirname(os.path.abspath(__file__)), "..", "lib"))
import native

U = "core/src/syscall/unix/"
CONFIG = dict(
    id="C16",
    level="proof",
    shims=["dashmap", "once_cell", "corosensei", "mio", "num_cpus", "crossbeam-skiplist"],
    inject=[
        ("harness/C16/model.rs", U + "mod.rs", "kani", "pub(crate)"),
        ("harness/C16/read.rs", U + "read.rs", "kani"),
        ("harness/C16/write.rs", U + "write.rs", "kani"),
        ("harness/C16/readv.rs", U + "readv.rs", "kani"),
        ("harness/C16/writev.rs", U + "writev.rs", "kani"),
        ("harness/C16/recvmsg.rs", U + "recvmsg.rs", "kani"),
        ("harness/C16/sendmsg.rs", U + "sendmsg.rs", "kani"),
        ("harness/C16/accept.rs", U + "accept.rs", "kani"),
        ("harness/C16/connect.rs", U + "connect.rs", "kani"),
    ],
    kani=[
        dict(name="c16_read", bounded="<= 4 kernel answers, len <= 3"),
        dict(name="c16_write", bounded="<= 4 kernel answers, len <= 3"),
        dict(name="c16_readv", bounded="<= 3 kernel answers, 2 iovecs x <= 2 bytes", timeout=1500),
        dict(name="c16_writev", bounded="<= 3 kernel answers, 2 iovecs x <= 2 bytes", timeout=1500),
        dict(name="c16_recvmsg", bounded="<= 3 kernel answers, 2 iovecs x <= 2 bytes", timeout=1500),
        dict(name="c16_sendmsg", bounded="<= 3 kernel answers, 2 iovecs x <= 2 bytes", timeout=1500),
        dict(name="c18_accept", bounded="<= 4 kernel answers"),
        dict(name="c18_connect", bounded="<= 3 wait rounds"),
    ],
    functions=[],
    assumptions=[],
    bounds="",
    manifest=dict(text="", note="", technique=""),
    trusted=["Kani 0.68 / CBMC 6.11", "feature `log` off"],
)

"""C16 — hooked socket I/O reports exactly the bytes it transferred (DESIGN.md 4, C16/C17/C18; bounded)."""
import os, sys
sys.path.insert(0, os.path.dirname(os.path.abspath(__file__)))
import _nio as N

CONFIG = dict(
    id="C16", level="other", shims=N.SHIMS, inject=N.INJECT,
    kani=[N.U[k] for k in ('read', 'write', 'readv', 'writev', 'recvmsg', 'sendmsg', 'readv3', 'writev3', 'read_long', 'write_long', 'recvmsg3', 'sendmsg3')],
    functions=N.FUNCS, assumptions=N.ASSUME,
    bounds="per unit: " + N.BB + " (read/write) ; " + N.BV + " (vectored)",
    explanation='Bounded stand-in (contract-based, Kani): the real NIO wrappers run against a scripted kernel whose every answer is a nondeterministic choice; obligations on the return value, errno and buffer contents hold for every script of the stated length and every buffer shape within the bound. Not counted as proved: the retry loops have no structural bound.',
    manifest=dict(text="Bounded stand-in. The real hooked read, write, readv, writev, recvmsg and sendmsg run against a scripted kernel that answers every inner call by nondeterministic choice (would-block, interruption, hard error, end of stream, any partial count). For every script of <= 4 answers (<= 3 for the vectored calls), every buffer / iovec shape within the bound, both blocking modes, every time limit and every monotone clock, Kani proves: a non-negative return value is exactly the number of bytes the kernel moved during the call; -1 is returned only if nothing was moved and some kernel call failed, with that call's errno; a zero-length request returns 0; after a read the caller's buffers hold the stream's next bytes in order and nothing else was written; every byte a write hands to the kernel is the next unsent stream byte (none twice, none skipped). Loopback tests only ever see kernel calls that transfer everything at once.", note='Bounded (script length, buffer shapes), never counted as proved. Trusted: scripted-kernel contract, flag-word contract of the two fcntl wrappers, stubs for clock / time limit / wait_*_event, shims.', technique=N.TECH),
    trusted=N.TRUSTED,
)
native_replay = N.native_replay_nio

"""C28 — time and slicing helpers never overflow or loop (DESIGN.md 4, C28)."""
CONFIG = dict(
    id="C28",
    level="proof",
    shims=[],
    inject=[
        ("harness/C28/common.rs", "core/src/common/mod.rs", "kani"),
        ("harness/C28/unix.rs", "core/src/syscall/unix/mod.rs", "kani"),
    ],
    kani=[
        dict(name="c28_timeout_time", tier="quick"),
        dict(name="c28_time_limit", tier="quick"),
        dict(name="c28_slices_std_axioms", tier="quick", timeout=120),
        dict(name="c28_slices_few_pieces", tier="quick", timeout=900, bounded="requests of at most three pieces (total < 3 x slice), full Duration domain otherwise", report_safety_too=True),
    ],
    verus=[
        dict(name="get_slices", source="core/src/common/mod.rs", preamble="specs/C28/get_slices.vpre.rs",
             min_verified=3,
             fns=[dict(
                 fn="get_slices", ret="result",
                 rewrites=[("Duration::ZERO == total", "dur_zero() == total")],
                 requires=["dur_ns(slice) > 0"],
                 ensures=[
                     "sum_ns(result@) == dur_ns(total)",
                     "forall|i: int| 0 <= i < result@.len() ==> dur_ns(#[trigger] result@[i]) <= dur_ns(slice)",
                 ],
                 loops={0: dict(
                     invariant=[
                         "dur_ns(slice) > 0",
                         "sum_ns(result@) + dur_ns(left_total) == dur_ns(total)",
                         "forall|i: int| 0 <= i < result@.len() ==> dur_ns(#[trigger] result@[i]) <= dur_ns(slice)",
                     ],
                     decreases="dur_ns(left_total)")},
             )]),
    ],
    functions=["open_coroutine_core::common::get_timeout_time", "open_coroutine_core::common::get_slices",
               "open_coroutine_core::syscall::unix::get_time_limit"],
    assumptions=[
        "64-bit target; Duration = (secs: u64, nanos < 1e9)",
        "common::now() replaced by an arbitrary u64 (contract: returns some u64)",
        "timeval fields are non-negative (what the kernel returns from getsockopt and accepts in setsockopt)",
        "get_slices: precondition slice > 0 (the property excludes a zero slice; with it the real loop diverges)",
        "three assumed specifications of std::time::Duration (checked_sub, partial_cmp, eq) in terms of an abstract nanosecond count",
    ],
    manifest=dict(
        text="Proof. get_timeout_time and get_time_limit: loop-free Kani harnesses over the full symbolic domain (every Duration x every clock value; every non-negative timeval) against a 128-bit saturating specification. get_slices: the function text is extracted from /repo on every run and verified by Verus (unbounded loop, inductive invariant, decreases clause => termination) against sum/fit postconditions. A Kani companion unit runs the real get_slices (no extraction) over the full Duration domain for requests of at most three pieces (no panic or overflow, pieces fit, add up to the total) so that a change which leaves the Verus subset is still examined. A unit test samples a handful of durations; these obligations quantify over all of them.",
        note="Trusted: Kani/CBMC, Verus/Z3, three assumed specifications of std::time::Duration (cross-checked against the real std code by a Kani harness on every run), now() treated as an arbitrary u64, timeval fields non-negative, slice > 0 as precondition, 64-bit target, feature log off.",
        technique="contract-based deductive verification: Kani full-domain harness contracts + Verus pre/postconditions and loop invariant on the extracted function",
    ),
    trusted=["Kani 0.68 / CBMC 6.11 / CaDiCaL", "Verus 0.2026.09.13 / Z3", "feature `log` off"],
)

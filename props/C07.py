"""C07 — coroutine lifecycle follows the documented state machine (DESIGN.md 4, C07)."""
CONFIG = dict(
    id="C07",
    level="proof",
    shims=["corosensei", "dashmap", "once_cell"],
    inject=[("harness/C07/korosensei.rs", "core/src/coroutine/korosensei.rs", "kani", "pub(crate)")],
    kani=[
        dict(name="c07_ready", tier="quick"), dict(name="c07_running", tier="quick"),
        dict(name="c07_suspend", tier="quick"), dict(name="c07_syscall", tier="quick"),
        dict(name="c07_cancel", tier="quick"), dict(name="c07_complete", tier="quick"),
        dict(name="c07_error", tier="quick"),
        dict(name="c07_resume_terminal", tier="quick", group=1, timeout=900),
        dict(name="c07_resume_yield", tier="quick", group=1, timeout=900),
        dict(name="c07_resume_return", tier="quick", group=1, timeout=900),
        dict(name="c07_resume_panic", tier="quick", group=1, timeout=900),
    ],
    functions=["Coroutine::change_state", "Coroutine::ready", "Coroutine::running", "Coroutine::suspend", "Coroutine::syscall",
               "Coroutine::cancel", "Coroutine::complete", "Coroutine::error", "broadcast! expansions in coroutine/listener.rs"],
    assumptions=[
        "catch_unwind is the identity on non-panicking closures (Kani has no unwinding; a panicking listener is not modelled)",
        "common::now() is an arbitrary u64, constant during one call",
        "format! results are never inspected by the verified functions (stubbed)",
        "the coroutine under test is a struct literal with every field the real constructor sets; three syscall names stand for all (the code only compares names for equality)",
        "corosensei replaced by a contract shim (not exercised by the transition obligations)",
    ],
    manifest=dict(
        text="Proof over the full state domain. For each of the seven transition functions, every current state (all seven variants, every timestamp, three syscall names x every sub-state), every argument and every clock value, a loop-free Kani harness with a recording listener proves on the real code: at most one report per call; a report carries exactly (old, new) and is an edge of the documented graph (Suspend only once due, Syscall->Syscall only for the same call); exactly one specific callback of the right kind with the old state; no report iff no change; a refused call changes nothing; terminal states are never left; every documented edge is taken when requested. Any sequence of calls is a sequence of such steps, so every reported path is a path in the graph. Tests walk a handful of fixed paths.",
        note="Trusted: catch_unwind call-through (no unwinding under Kani, so listener panics are not modelled), clock stub, format! stub, struct-literal coroutine, corosensei/dashmap/once_cell shims. The resume path (terminal short-circuit, yield classification) is checked by four further units in both tiers.",
        technique="contract-based deductive verification: Kani full-domain harness contracts on the real transition functions with a recording listener",
    ),
    trusted=["Kani 0.68 / CBMC 6.11", "feature `log` off"],
)

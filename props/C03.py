"""C03 — work-steal queues neither lose nor duplicate items (sequential half) (DESIGN.md 4, C05/C04/C03)."""
import os, sys
sys.path.insert(0, os.path.dirname(os.path.abspath(__file__)))
import _queue as Q

CONFIG = dict(
    id="C03", level="other", shims=Q.SHIMS, inject=Q.INJECT,
    kani=[Q.U[k] for k in ('o_pop_local', 'o_shared', 'o_push', 'o_idle0', 'o_idle1', 'p_shared', 'p_push', 'p_order', 'p_idle0', 'p_idle1')],
    functions=Q.FUNCS, assumptions=Q.ASSUME + ['PARTIAL: the property quantifies over thread interleavings; only the sequential half (every single operation conserves the multiset of items and keeps the shared counter equal to the shared content) is decided here'],
    bounds=Q.B,
    explanation='Partial and bounded (contract-based, Kani): per-operation conservation of the multiset of items over ALL queues (shared, the operating local queue, the victim of a steal) and shared-len bookkeeping, from every state of a bounded configuration. The interleaving half of the property (lost updates on len, two thieves) is not decidable by this technique and is not claimed.',
    manifest=dict(
        text="Partial, bounded stand-in for the sequential half. For every state of a bounded configuration and every single operation (shared push/pop, local push incl. overflow, local pop, pop with steal from a sibling, for both queue flavours) Kani proves on the real code, for an arbitrary witness item value, that the number of its occurrences over all queues changes by exactly the pushed/popped item (nothing lost, nothing duplicated, whole-view postcondition including the victim of a steal) and that the shared queue's reported length equals the number of items it holds afterwards. NOT decided: any interleaving of operations of different threads (the non-atomic len update, concurrent thieves).",
        note='Sequential half only, bounded configuration; queue dependency shims are assumed contracts.',
        technique='contract-based deductive verification (bounded, sequential half): Kani single-operation conservation contracts (multiset via an arbitrary witness value) on the real queue functions',
    ),
    trusted=Q.TRUSTED,
)
native_replay = Q.native_replay_q
extra = Q.conformance

"""C13 — cancelling a task affects only that task (DESIGN.md 4, C13; partial claim: the queued branch)."""
import os, sys
sys.path.insert(0, os.path.join(os.path.dirname(os.path.abspath(__file__)), "..", "lib"))
import native

CONFIG = dict(
    id="C13",
    level="proof",
    shims=["dashmap", "once_cell", "num_cpus", "crossbeam-skiplist", "corosensei"],
    inject=[("harness/C13/co_pool.rs", "core/src/co_pool/mod.rs", "kani"),
            ("harness/common/task_mk.rs", "core/src/co_pool/task.rs", "kani", "pub(crate)"),
            ("harness/C13/mkco.rs", "core/src/coroutine/korosensei.rs", "kani", "pub(crate)"),
            ("harness/C13/reexp.rs", "core/src/coroutine/mod.rs", "kani", "pub(crate)")],
    kani=[dict(name="c13_try_run_step", timeout=1200)],
    functions=["CoroutinePool::try_run", "CoroutinePool::notify", "Task::run", "CoroutinePool::new (constructor, executed for real)"],
    assumptions=[
        "PARTIAL: only the queued branch (a task cancelled before it starts, and the frame of one try_run step) is decided; cancelling a running or suspended task goes through pthread_kill(SIGVTALRM) / Scheduler::try_cancel_coroutine, where the handler cancels whatever coroutine is current when the signal lands - a race between a lookup and a context switch that no contract over one call decides",
        "the task queue's pop hands out the task the harness queued (queue order is C05); the current worker coroutine is a struct-literal object (only its id is used)",
        "dashmap (incl. its locking precondition), once_cell, num_cpus, crossbeam-skiplist, corosensei shims; catch_unwind call-through; Condvar::notify_one stubbed (the released flag is what is checked); sequential only",
    ],
    bounds="none: loop-free; every task id pair, every combination of pending cancels / waiter / detached result",
    manifest=dict(
        text="Proof (partial claim: the queued branch). On a pool built by the real constructor, for every pair of distinct task ids and every combination of pending cancels, registered waiter and detached result, Kani proves on the real try_run / Task::run / notify for one scheduling step that consumes task t: if t was cancelled before it started its body does not run and the pending cancel is consumed; otherwise its body runs exactly once, whatever is pending for another task; a waiter registered for t is settled by that step (a result exists, the waiter is released and unregistered) whether t ran or was cancelled; no task-to-coroutine entry is left behind for t; and nothing belonging to the other task changes (pending cancel, running entry, waiter, result). NOT decided: cancelling a running or suspended task (signal path).",
        note="Partial. Trusted: queue-pop and current-coroutine stand-ins, dashmap shim incl. locking contract, other shims. Sequential only.",
        technique="contract-based deductive verification: Kani harness contract with an explicit frame condition on the real try_run step",
    ),
    trusted=["Kani 0.68 / CBMC 6.11", "feature `log` off"],
)


def native_replay(v, path):
    if "waiter_of_the_consumed_task" not in v["obligation"]:
        return None
    rc, out = native.run_test("C13", "native/c13_replay.rs", "core/src/co_pool/mod.rs", "c13_native_cancelled_task_waiter", timeout=300)
    return native.verdict(rc, out, dict(decisive=False, scenario="fixed: c13_native_cancelled_task_waiter"))

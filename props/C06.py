"""C06 — work in the shared queue is not starved by local work (DESIGN.md 4, C06)."""
CONFIG = dict(
    id="C06",
    level="proof",
    shims=["crossbeam-skiplist", "st3", "crossbeam-deque", "rand"],
    inject=[("harness/Q/ordered.rs", "core/src/common/ordered_work_steal.rs", "kani")],
    kani=[
        dict(name="q_ordered_tick_contract"),
        dict(name="q_ordered_pop_consultation_order"),
        dict(name="q_ordered_pop_local_contract", bounded="<= 2 priorities x <= 2 items"),
        dict(name="q_ordered_shared_push_pop", bounded="<= 2 priorities x <= 2 items"),
        dict(name="q_ordered_idle_pop_finds_work_start0", bounded="sibling: <= 2 priorities x <= 2 items", timeout=1200),
        dict(name="q_ordered_idle_pop_finds_work_start1", bounded="sibling: <= 2 priorities x <= 2 items", timeout=1200),
        dict(name="q_ordered_local_push", bounded="<= 2 priorities x <= 2 items, capacity 2", timeout=1200),
    ],
    functions=[], assumptions=[], bounds="",
    manifest=dict(text="", note="", technique=""),
    trusted=["Kani 0.68 / CBMC 6.11", "feature `log` off"],
)

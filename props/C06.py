"""C06 — work in the shared queue is not starved by local work (DESIGN.md 4, C06)."""
CONFIG = dict(
    id="C06",
    level="proof",
    shims=["crossbeam-skiplist", "st3", "crossbeam-deque", "rand"],
    inject=[("harness/Q/ordered.rs", "core/src/common/ordered_work_steal.rs", "kani")],
    kani=[
        dict(name="q_ordered_tick_contract"),
        dict(name="q_ordered_pop_order", bounded="<= 2 priorities x <= 2 items per queue", timeout=1200),
    ],
    functions=[], assumptions=[], bounds="",
    manifest=dict(text="", note="", technique=""),
    trusted=["Kani 0.68 / CBMC 6.11", "feature `log` off"],
)

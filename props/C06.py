"""C06 — work in the shared queue is not starved by local work (DESIGN.md 4, C06)."""
import os, sys
sys.path.insert(0, os.path.dirname(os.path.abspath(__file__)))
import _queue as Q

CONFIG = dict(
    id="C06", level="proof", shims=Q.SHIMS, inject=Q.INJECT,
    kani=[Q.U[k] for k in ("o_tick", "o_order", "o_idle0", "o_idle1", "p_tick", "p_order", "p_idle0", "p_idle1")],
    verus=[dict(name="tick_fairness_lemma", preamble="specs/C06/tick_lemma.vpre.rs", min_verified=5)],
    functions=Q.FUNCS, assumptions=Q.ASSUME + [
        "the Verus lemma is over the sequence c -> (c + 1) mod 2^32, which the two tick units prove to be what the real tick() computes",
    ],
    bounds="tick and consultation order: every u32 counter value, loop-free (unbounded); fairness lemma: Verus, unbounded; idle pop (steal): " + Q.B,
    manifest=dict(
        text="Proof for the 61-pop bound: Kani proves on the real tick() of both local-queue flavours, for every counter value, that it returns (c+1) mod 2^32 and leaves the counter there; Verus proves for that sequence and every start value that any 61 consecutive ticks contain a multiple of 61 (also across the wrap); Kani proves on the real pop(), for every tick value, that the shared queue is consulted first exactly on those ticks and its item is served when it holds one, the local queue being untouched (callees represented by their contracts, each proved on the real code by its own unit). Bounded stand-in for the second sentence: from every state of a bounded configuration (two local queues of capacity 2, <= 2 priorities x <= 2 items, any items/priorities, both victim orders, the idle queue's counter anywhere between its content and the capacity) an idle local queue's pop returns work whenever a sibling or the shared queue holds some. Tests push a few items and pop them all; none keeps a local queue busy for 61 pops or lets a sibling steal before the idle queue looks.",
        note="Sequential only. Trusted: queue dependency shims (contracts written as code), stubs = callee contracts proved separately, struct-literal states. The steal units are bounded and listed as such in the evidence.",
        technique="contract-based deductive verification: Kani function contracts on the real tick()/pop() (modular, callee contracts as stubs) + Verus lemma over the tick sequence; bounded Kani units for the steal path",
    ),
    trusted=Q.TRUSTED + ["Verus 0.2026.09.13 / Z3"],
)
native_replay = Q.native_replay_q
extra = Q.conformance

"""C04 — queue operations always terminate (DESIGN.md 4, C05/C04/C03)."""
import os, sys
sys.path.insert(0, os.path.dirname(os.path.abspath(__file__)))
import _queue as Q

CONFIG = dict(
    id="C04", level="other", shims=Q.SHIMS, inject=Q.INJECT,
    kani=[Q.U[k] for k in ('o_push', 'o_idle0', 'o_idle1', 'o_pop_local', 'o_shared', 'p_push', 'p_idle0', 'p_idle1', 'p_shared')],
    functions=Q.FUNCS, assumptions=Q.ASSUME + ['BOUNDED: termination of each single operation from every state of an inductive over-approximation of the reachable states (local counter anywhere between the real content and the capacity, which is what steals by siblings can produce) of a bounded configuration; unwinding assertions are the obligation', 'task/coroutine submission is push on these queues plus map inserts; the pool-level wrappers are not executed here'],
    bounds=Q.B,
    explanation="Bounded stand-in (contract-based, Kani): every single queue operation returns from every state of an inductive over-approximation of the reachable states (Inv_reach: local counter between content and capacity) of a bounded configuration; CBMC's unwinding assertions are on, so a loop that can exceed its structural bound from such a state is reported. Not counted as proved because the configuration is bounded.",
    manifest=dict(
        text="Bounded stand-in. For every state of a bounded configuration satisfying Inv_reach (shared counter = shared content; each local counter anywhere between that queue's real content and the capacity - the states that steals by siblings produce and that no test reaches) and every single operation (local push incl. the overflow half-move loop, local pop incl. the steal scan, shared push/pop), Kani proves on the real code that the operation returns: all loops are unwound to their structural bound with unwinding assertions on, and the counters satisfy Inv_reach again afterwards (so the argument is inductive over histories of any length, including histories with steals). Tests never push to a queue that a sibling has stolen from.",
        note='Bounded configuration; sequential; submit_task/submit_co themselves (pool wrappers) are not executed; queue dependency shims are assumed contracts.',
        technique='contract-based deductive verification (bounded): Kani single-operation termination obligations (unwinding assertions) from an inductive over-approximation of the reachable states',
    ),
    trusted=Q.TRUSTED,
)
native_replay = Q.native_replay_q
extra = Q.conformance

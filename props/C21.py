"""C21 — OS readiness interest matches outstanding waits (DESIGN.md 4, C21)."""
CONFIG = dict(
    id="C21",
    level="proof",
    shims=["mio", "dashmap", "once_cell"],
    inject=[
        ("harness/C21/selector.rs", "core/src/net/selector/mod.rs", "kani", "pub(crate)"),
        ("harness/C21/bridge.rs", "core/src/net/mod.rs", "kani", "pub(crate)"),
        ("harness/C21/close.rs", "core/src/syscall/unix/close.rs", "kani"),
        ("harness/C21/shutdown.rs", "core/src/syscall/unix/shutdown.rs", "kani"),
    ],
    kani=[
        dict(name="c21_step", tier="quick"),
        dict(name="c21_step_os_failure", tier="quick"),
        dict(name="c21_close_step", tier="quick"),
        dict(name="c21_shutdown_step", tier="quick"),
    ],
    functions=["Selector::add_read_event", "Selector::add_write_event", "Selector::del_event", "Selector::del_read_event",
               "Selector::del_write_event", "Selector::register/reregister/deregister", "Poller::do_register/do_reregister/do_deregister",
               "NioCloseSyscall::close", "NioShutdownSyscall::shutdown"],
    assumptions=[
        "one selector (the records are process-wide statics while every event loop owns a poller; cross-loop histories are thread histories, outside the technique)",
        "mio shim = epoll contract: register fails with EEXIST if present, reregister/deregister with ENOENT if absent, a forced errno changes nothing; close() silently removes the descriptor from the set",
        "dashmap / once_cell sequential shims (3 entries, 2 registrations); two descriptors",
        "EventLoops::del_event / del_read_event / del_write_event stubbed to the single selector's method (what net/mod.rs does for one loop)",
        "waits are removed only through the runtime (a raw close bypassing the hook is outside the property)",
    ],
    bounds="induction over the abstract per-descriptor state: any state with Inv x one operation; two descriptors; all 2^64 tokens; no bound on history length",
    manifest=dict(
        text="Proof by induction over the per-descriptor abstract state (read-recorded?, write-recorded?, OS interest). For every state satisfying `OS interest = union of recorded interests` on two descriptors, every one of the five interest operations, hooked close and hooked shutdown with any `how`, and every token, Kani proves on the real Selector default methods instantiated with the real Poller: the call succeeds, records and OS interest change exactly as specified, the invariant holds afterwards on both descriptors, an OS failure leaves everything unchanged, close leaves neither record nor interest so a reused number registers afresh. Histories of any length follow; the tests exercise one fixed short sequence.",
        note="Trusted: mio shim (epoll contract), dashmap/once_cell shims, single selector, EventLoops dispatch stubs (transcribed from net/mod.rs for one loop). Sequential only.",
        technique="contract-based deductive verification: inductive invariant over an abstract per-descriptor state, Kani harness contracts on the real selector methods against an assumed epoll contract",
    ),
    trusted=["Kani 0.68 / CBMC 6.11", "feature `log` off"],
)

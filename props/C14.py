"""C14 — hooked timed waits honour the requested timeout (DESIGN.md 4, C14; partial claim)."""
import os, sys
sys.path.insert(0, os.path.join(os.path.dirname(os.path.abspath(__file__)), "..", "lib"))
import native

U = "core/src/syscall/unix/"
CONFIG = dict(
    id="C14",
    level="proof",
    shims=["dashmap", "once_cell", "corosensei", "mio", "num_cpus", "crossbeam-skiplist"],
    inject=[
        ("harness/C14/model.rs", U + "mod.rs", "kani", "pub(crate)"),
        ("harness/C14/sleep.rs", U + "sleep.rs", "kani"),
        ("harness/C14/usleep.rs", U + "usleep.rs", "kani"),
        ("harness/C14/nanosleep.rs", U + "nanosleep.rs", "kani"),
        ("harness/C14/poll.rs", U + "poll.rs", "kani"),
        ("harness/C14/select.rs", U + "select.rs", "kani"),
        ("harness/C14/pthread_cond_timedwait.rs", U + "pthread_cond_timedwait.rs", "kani"),
        ("harness/C14/event_loop.rs", "core/src/net/event_loop.rs", "kani"),
    ],
    kani=[
        dict(name="c14_sleep"), dict(name="c14_usleep"), dict(name="c14_nanosleep"),
        dict(name="c14_poll_timeout", bounded="timeout <= 143 ms (<= 12 wait rounds fully unwound)"),
        dict(name="c14_poll_infinite", bounded="<= 12 wait rounds"),
        dict(name="c14_poll_long", bounded="<= 12 wait rounds"),
        dict(name="c14_poll_up_to_5s", tier="thorough", bounded="143 ms < timeout <= 5 000 ms (<= 330 wait rounds fully unwound)", timeout=3600),
        dict(name="c14_select_timeout", bounded="timeout <= 143 000 us (<= 12 wait rounds fully unwound)"),
        dict(name="c14_select_seconds", bounded="<= 12 wait rounds"),
        dict(name="c14_select_up_to_5s", tier="thorough", bounded="tv_sec = 0, 143 000 us < tv_usec <= 5 000 000 us (<= 330 wait rounds fully unwound)", timeout=3600),
        dict(name="c14_select_invalid", panic_is_violation=True),
        dict(name="c14_select_infinite", bounded="<= 12 wait rounds"),
        dict(name="c14_cond_timedwait", bounded="<= 9 clock readings"),
        dict(name="c14_timed_wait_just", bounded="<= 8 clock readings"),
    ],
    functions=["NioSleepSyscall::sleep", "NioUsleepSyscall::usleep", "NioNanosleepSyscall::nanosleep", "NioPollSyscall::poll",
               "NioSelectSyscall::select", "NioPthreadCondTimedwaitSyscall::pthread_cond_timedwait", "EventLoop::timed_wait_just"],
    assumptions=[
        "PARTIAL: `no later than the timeout plus a bounded scheduling slack` in wall-clock terms depends on the OS scheduler and the event-loop thread; the contract replaces it by `requested no more than the timeout (plus < 1 ms for select)`",
        "EventLoops::wait_event(d) replaced by a recorder (that it waits at least d is the obligation on EventLoop::timed_wait_just, whose inner wait_just is replaced by `returns after at most t`)",
        "the caller is a plain thread (Coroutine::current() = None); the coroutine case performs one state change and the same wait",
        "inner poll/select/pthread_cond_timedwait: `nothing ready` / `not signalled`",
        "clock: arbitrary monotone u64",
        "pthread_cond_timedwait deadline before 2096",
    ],
    bounds="conversions and EINVAL: full domain, loop-free; slice loops: <= 12 wait rounds (143 ms of requested waiting) / <= 9 clock readings; within that the input domain is complete: poll 0..143 ms exact, >= 144 ms and negative not yet returned; select 0..143 000 us exact, longer (every tv_sec up to i64::MAX) and NULL not yet returned (enforced by kani::assume in the environment so unwinding assertions hold); thorough tier: select with tv_sec = 0 and 143 000 < tv_usec <= 5 000 000 us exact, and poll with 143 < timeout <= 5 000 ms exact (330 rounds fully unwound, about 30 min each)",
    manifest=dict(
        text="Proof for the conversions and the EINVAL cases (full input domain, loop-free): sleep/usleep/nanosleep hand the event loop exactly the requested time in the requested unit and return 0; an invalid timespec (nanosleep), a negative timeval (select) or an invalid abstime (pthread_cond_timedwait) is rejected with the native error and never waits or panics. Bounded stand-in for the slice loops (stated per unit, never counted as proved): with nothing ready, poll(t <= 143 ms) and select(tv <= 143 000 us) return 0 only after the waits they requested cover the requested time in the requested unit (ms for poll, us for select) and no more than that (+ < 1 ms for select, which works in whole milliseconds); poll(t >= 144 ms up to c_int::MAX), select(every longer tv up to tv_sec = i64::MAX) and infinite timeouts have not returned after 12 wait rounds (143 ms of requested waiting); in the thorough tier select(tv_usec up to 5 s, which spans the values where the field exceeds one second and where it no longer fits 32 bits of nanoseconds) and poll(up to 5 s) are exact as well; timed_wait_just returns only at or after entry + d; pthread_cond_timedwait reports ETIMEDOUT only once the absolute deadline has passed on a symbolic monotone clock (the length of the slices both wait in, 10 ms today, is deliberately not part of the contract). Tests sleep 1 ms / 1 s once and accept any duration above the lower bound; select/poll/cond_timedwait are never called with a timeout.",
        note="Partial claim: wall-clock slack is not decidable by a contract over one call. Trusted: wait_event recorder, symbolic clock, `nothing ready` inner calls, plain-thread caller, shims. Bounds as stated per unit in the evidence.",
        technique="contract-based deductive verification: Kani harness contracts on the real hooks (full-domain for conversions, bounded unwinding with a symbolic clock for slice loops)",
    ),
    trusted=["Kani 0.68 / CBMC 6.11", "feature `log` off"],
)


def _ints(v):
    """the verifier's concrete values, in kani::any() order, as signed 64-bit / 32-bit integers"""
    out = []
    for e in (v.get("playback") or []):
        b = e.get("bytes")
        if b:
            out.append(int.from_bytes(bytes(b), "little", signed=True))
    return out


def _run(kind, a, b):
    rc, out = native.run_test("C14", "native/c14_replay.rs", "core/src/syscall/unix/select.rs", "c14_native_replay",
                              env={"VERIF_C14_KIND": kind, "VERIF_C14_A": str(a), "VERIF_C14_B": str(b)}, timeout=600)
    d = native.verdict(rc, out, dict(kind=kind, a=a, b=b))
    if d["reproduced"] is None and any("VERIF-REPLAY-UNDECIDED" in l for l in d["lines"]):
        d["note"] = "native timing cannot discriminate this counterexample from scheduling noise"
    return d


def native_replay(v, path):
    """Feeds the verifier's counterexample through the crate's real hooked entry point on a real event loop.
    Invalid-argument scenarios are decisive (the real code either rejects exactly this input or it does not).
    Timing scenarios only ever confirm: early return is definite, late return only far beyond scheduling noise."""
    h, vals = v["harness"], _ints(v)
    if h == "c14_select_invalid" and len(vals) >= 2:
        d = _run("select_invalid", vals[0], vals[1]); d["decisive"] = True
        return d
    if h == "c14_select_timeout" and vals:
        d = _run("select_time", 0, vals[0]); d["decisive"] = False
        if d["reproduced"] is None:
            # a unit error scales with the request: the same call with 30 ms makes it visible natively
            d2 = _run("select_time", 0, 30000); d2["decisive"] = False
            d2["first_attempt_with_the_counterexample_itself"] = d
            d2["note"] = "counterexample value scaled to 30 000 us so that the excess exceeds scheduling noise"
            return d2
        return d
    if h == "c14_select_seconds" and len(vals) >= 2 and 0 <= vals[0] <= 1 and 0 <= vals[1] <= 999_999:
        d = _run("select_time", vals[0], vals[1]); d["decisive"] = False  # an early return is definite
        return d
    if h == "c14_select_up_to_5s" and vals and 0 <= vals[0] <= 5_000_000:
        d = _run("select_time", 0, vals[0]); d["decisive"] = False  # an early return is definite
        return d
    if h == "c14_poll_up_to_5s" and vals and 0 <= vals[0] <= 5_000:
        d = _run("poll_time", vals[0], 0); d["decisive"] = False
        return d
    if h == "c14_poll_long" and vals and 144 <= vals[0] <= 1500:
        d = _run("poll_time", vals[0], 0); d["decisive"] = False
        return d
    if h == "c14_poll_timeout" and vals:
        d = _run("poll_time", vals[0], 0); d["decisive"] = False
        return d
    if h == "c14_nanosleep" and len(vals) >= 2:
        sec, nsec = vals[0], vals[1]
        if sec < 0 or nsec < 0 or nsec > 999_999_999:
            d = _run("nanosleep_invalid", sec, nsec); d["decisive"] = "einval" in v["obligation"]
            return d
        if sec <= 1:
            d = _run("nanosleep_time", sec, nsec); d["decisive"] = False
            return d
        return None  # a wait of more than a second is not replayed natively
    if h == "c14_usleep" and vals and 0 <= vals[0] <= 1_500_000:
        d = _run("usleep_time", vals[0], 0); d["decisive"] = False
        return d
    if h == "c14_sleep" and vals and 0 <= vals[0] <= 1:
        d = _run("sleep_time", vals[0], 0); d["decisive"] = False
        return d
    return None

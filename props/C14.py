"""C14 — hooked timed waits honour the requested timeout (DESIGN.md 4, C14; partial claim)."""
import os, sys
sys.path.insert(0, os.path.join(os.path.dirname(os.path.abspath(__file__)), "..", "lib"))
import native

U = "core/src/syscall/unix/"
CONFIG = dict(
    id="C14",
    level="proof",
    shims=["dashmap", "once_cell", "corosensei", "mio", "num_cpus", "crossbeam-skiplist"],
    inject=[
        ("harness/C14/model.rs", U + "mod.rs", "kani", "pub(crate)"),
        ("harness/C14/sleep.rs", U + "sleep.rs", "kani"),
        ("harness/C14/usleep.rs", U + "usleep.rs", "kani"),
        ("harness/C14/nanosleep.rs", U + "nanosleep.rs", "kani"),
        ("harness/C14/poll.rs", U + "poll.rs", "kani"),
        ("harness/C14/select.rs", U + "select.rs", "kani"),
        ("harness/C14/pthread_cond_timedwait.rs", U + "pthread_cond_timedwait.rs", "kani"),
        ("harness/C14/event_loop.rs", "core/src/net/event_loop.rs", "kani"),
    ],
    kani=[
        dict(name="c14_sleep"), dict(name="c14_usleep"), dict(name="c14_nanosleep"),
        dict(name="c14_poll_timeout", bounded="timeout <= 64 ms (<= 12 wait rounds fully unwound)"),
        dict(name="c14_poll_infinite", bounded="<= 12 wait rounds"),
        dict(name="c14_select_timeout", bounded="timeout <= 40 000 us (<= 12 wait rounds fully unwound)"),
        dict(name="c14_select_seconds", bounded="<= 12 wait rounds"),
        dict(name="c14_select_invalid", panic_is_violation=True),
        dict(name="c14_select_infinite", bounded="<= 12 wait rounds"),
        dict(name="c14_cond_timedwait", bounded="<= 9 clock readings"),
        dict(name="c14_timed_wait_just", bounded="<= 8 clock readings"),
    ],
    functions=["NioSleepSyscall::sleep", "NioUsleepSyscall::usleep", "NioNanosleepSyscall::nanosleep", "NioPollSyscall::poll",
               "NioSelectSyscall::select", "NioPthreadCondTimedwaitSyscall::pthread_cond_timedwait", "EventLoop::timed_wait_just"],
    assumptions=[
        "PARTIAL: `no later than the timeout plus a bounded scheduling slack` in wall-clock terms depends on the OS scheduler and the event-loop thread; the contract replaces it by `requested no more than the timeout (plus < 1 ms for select)`",
        "EventLoops::wait_event(d) replaced by a recorder (that it waits at least d is the obligation on EventLoop::timed_wait_just, whose inner wait_just is replaced by `returns after at most t`)",
        "the caller is a plain thread (Coroutine::current() = None); the coroutine case performs one state change and the same wait",
        "inner poll/select/pthread_cond_timedwait: `nothing ready` / `not signalled`",
        "clock: arbitrary monotone u64",
        "pthread_cond_timedwait deadline before 2096",
    ],
    bounds="conversions and EINVAL: full domain, loop-free; slice loops: poll <= 64 ms, select <= 40 000 us, <= 12 wait rounds / <= 9 clock readings (enforced by kani::assume in the environment so unwinding assertions hold)",
    manifest=dict(
        text="Proof for the conversions and the EINVAL cases (full input domain, loop-free): sleep/usleep/nanosleep hand the event loop exactly the requested time in the requested unit and return 0, invalid timespec/timeval/abstime are rejected with the native error and never wait or panic. Bounded for the slice loops over a symbolic monotone clock: with nothing ready, poll/select return 0 only after the waits they requested cover the requested time in the requested unit (ms for poll, us for select) and no more than that (+ < 1 ms for select), infinite timeouts never give up; timed_wait_just returns only at or after entry + d with slices <= 10 ms; pthread_cond_timedwait reports ETIMEDOUT only once the absolute deadline has passed. Tests sleep 1 ms / 1 s once and accept any duration above the lower bound.",
        note="Partial claim: wall-clock slack is not decidable by a contract over one call. Trusted: wait_event recorder, symbolic clock, `nothing ready` inner calls, plain-thread caller, shims. Bounds as stated per unit in the evidence.",
        technique="contract-based deductive verification: Kani harness contracts on the real hooks (full-domain for conversions, bounded unwinding with a symbolic clock for slice loops)",
    ),
    trusted=["Kani 0.68 / CBMC 6.11", "feature `log` off"],
)


def native_replay(v, path):
    ob = v["obligation"]
    test = "c14_native_select_negative" if ("einval" in ob or "invalid" in ob or "safety" in ob) else "c14_native_select_units"
    rc, out = native.run_test("C14", "native/c14_replay.rs", "core/src/syscall/unix/select.rs", test, timeout=300)
    d = native.verdict(rc, out, dict(test=test))
    return d

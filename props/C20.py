"""C20 — readiness wakes exactly the waiting coroutine, promptly (DESIGN.md 4, C20)."""
import os, sys
sys.path.insert(0, os.path.join(os.path.dirname(os.path.abspath(__file__)), "..", "lib"))
import native

CONFIG = dict(
    id="C20",
    level="proof",
    shims=["mio", "dashmap", "once_cell", "num_cpus", "crossbeam-skiplist", "corosensei"],
    inject=[("harness/C20/selector.rs", "core/src/net/selector/mod.rs", "kani"),
            ("harness/C20/dispatch_sched.rs", "core/src/scheduler.rs", "kani"),
            ("harness/C20/dispatch_loop.rs", "core/src/net/event_loop.rs", "kani"),
            ("harness/C13/mkco.rs", "core/src/coroutine/korosensei.rs", "kani", "pub(crate)"),
            ("harness/C13/reexp.rs", "core/src/coroutine/mod.rs", "kani", "pub(crate)")],
    kani=[
        dict(name="c20_codec_register", tier="quick"),
        dict(name="c20_codec_reregister", tier="quick"),
        dict(name="c20_two_fds_distinct", tier="quick"),
        dict(name="c20_failed_poll_releases_the_guard", tier="quick"),
        dict(name="c20_second_direction_registers_its_callers_token", tier="quick"),
        dict(name="c20_try_resume_requeues_exactly_the_waiter", tier="quick", timeout=900),
        dict(name="c20_resume_dispatches_registered_tokens_only", tier="quick"),
        dict(name="c20_every_round_polls_the_selector", tier="quick"),
    ],
    functions=["net::selector::mio_adapter::Poller::do_register", "Poller::do_reregister", "Poller::do_select",
               "<mio::event::Event as selector::Event>::get_token", "Selector::add_read_event", "Selector::register",
               "Selector::select (bookkeeping tail)", "EventLoop::resume", "Scheduler::try_resume", "EventLoop::wait_event"],
    assumptions=[
        "64-bit usize (mio::Token wraps a usize)",
        "mio contract (shim): an event for a source carries the Token and interest of its latest (re)registration; "
        "register on a fresh fd and reregister on a registered fd succeed",
        "dashmap / once_cell replaced by sequential executable specifications (at most 3 map entries, 2 registrations)",
        "EventLoop::token registers the current coroutine's id as the token (read off event_loop.rs; not executed here: thread-local accessor)",
    ],
    bounds="none on the token domain (all 2^64 values); shim capacities: 2 registrations, 3 map entries (never reached by these obligations)",
    manifest=dict(
        text="Proof over the full 64-bit token domain. Loop-free Kani harnesses drive the real Poller::do_register / do_reregister / add_read_event / select and the real Event::get_token against the mio contract and prove decode(encode(token)) == token, that an event for one descriptor never decodes to another descriptor's waiter, that the call which adds a second direction to a registered descriptor registers the token it was given (the event decodes to the waiter that registered last), and that a failed poll (EINTR or any errno) is reported, releases the poll guard and leaves the next poll able to deliver the pending event; and for the dispatch: EventLoop::resume hands a token to the scheduler exactly when a coroutine registered it (consuming the registration), and Scheduler::try_resume re-queues exactly the coroutine parked under that token, marks exactly its wait as answered and neither resumes nor changes any other parked coroutine; and every round of the loop (wait_event) polls the selector exactly once, also when the scheduler has used up the whole slice. If the identity fails the event loop's lookup of the waiting coroutine misses and only the 10 ms timeout path can wake it - exactly the promptness clause. Tests only ever use small ids or never look at which path woke the coroutine.",
        note="Trusted: mio shim (epoll contract as executable specification), dashmap/once_cell shims, 64-bit target, EventLoop::token -> coroutine id mapping read from source (TLS accessor, not executable under Kani); the dispatch EventLoop::resume -> Scheduler::try_resume is covered by two modular units (try_resume recorded in the first; the ready queue's push recorded and Coroutine::syscall represented by its C07 contract in the second); promptness itself (event vs. 10 ms time-out) is the consequence argued in the claim, not a timed measurement.",
        technique="contract-based deductive verification: Kani full-domain harness contracts on the real selector adapter against an assumed mio contract",
    ),
    trusted=["Kani 0.68 / CBMC 6.11", "feature `log` off"],
)


def native_replay(v, path):
    """real epoll + socketpair: register with the counterexample token, make the fd ready, decode the event"""
    token = None
    for e in (v.get("playback") or []):
        b = e.get("bytes")
        if b and len(b) == 8:
            token = int.from_bytes(bytes(b), "little")
            if token > 0xFFFFFFFF:
                break
    if token is None:
        token = 0x1_0000_0001
    rc, out = native.run_test("C20", "native/c20_replay.rs", "core/src/net/selector/mod.rs", "c20_native_replay",
                              env={"VERIF_CEX_TOKEN": str(token)})
    # the counterexample token goes through the real do_register -> epoll -> get_token path: decisive for the
    # register codec obligation only; for the others (reregister, two descriptors) it merely confirms
    return native.verdict(rc, out, dict(token=token, decisive=(v["obligation"] == "C20.decode_encode_identity"),
                                        scenario="counterexample token through Selector::do_register / do_select / Event::get_token"))

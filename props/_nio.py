"""Shared configuration of the hooked socket I/O family (C16, C17, C18): scripted-kernel harnesses on the real
NIO wrappers (DESIGN.md 4, C16/C17/C18)."""
import os, sys
sys.path.insert(0, os.path.join(os.path.dirname(os.path.abspath(__file__)), "..", "lib"))
import native

U_ = "core/src/syscall/unix/"
SHIMS = ["dashmap", "once_cell", "corosensei", "mio", "num_cpus", "crossbeam-skiplist"]
INJECT = [("harness/C16/model.rs", U_ + "mod.rs", "kani", "pub(crate)")] + \
         [("harness/C16/%s.rs" % n, U_ + "%s.rs" % n, "kani") for n in
          ("read", "write", "readv", "writev", "recvmsg", "sendmsg", "accept", "connect")]
BB = "<= 4 kernel answers per hooked call, buffer <= 3 bytes"
BV = "<= 3 kernel answers per hooked call, 2 iovecs x <= 2 bytes"
U = dict(
    read=dict(name="c16_read", bounded=BB),
    write=dict(name="c16_write", bounded=BB),
    readv=dict(name="c16_readv", bounded=BV, timeout=2400),
    writev=dict(name="c16_writev", bounded=BV, timeout=2400),
    recvmsg=dict(name="c16_recvmsg", bounded=BV, timeout=2400),
    sendmsg=dict(name="c16_sendmsg", bounded=BV, timeout=2400),
    readv3=dict(name="c16_readv3", bounded="<= 3 kernel answers, 3 iovecs x <= 2 bytes", timeout=2400),
    writev3=dict(name="c16_writev3", bounded="<= 3 kernel answers, 3 iovecs x <= 2 bytes", timeout=2400),
    read_long=dict(name="c16_read_long", tier="thorough", bounded="<= 6 kernel answers, buffer <= 3 bytes", timeout=2400),
    write_long=dict(name="c16_write_long", tier="thorough", bounded="<= 6 kernel answers, buffer <= 3 bytes", timeout=2400),
    recvmsg3=dict(name="c16_recvmsg3", tier="thorough", bounded="<= 3 kernel answers, 3 iovecs x <= 2 bytes", timeout=3000),
    sendmsg3=dict(name="c16_sendmsg3", tier="thorough", bounded="<= 3 kernel answers, 3 iovecs x <= 2 bytes", timeout=3000),
    accept=dict(name="c18_accept", bounded="<= 4 kernel answers"),
    connect=dict(name="c18_connect", bounded="<= 3 wait rounds"),
)
FUNCS = ["NioReadSyscall::read (impl_nio_read_buf!)", "NioWriteSyscall::write (impl_nio_write_buf!)",
         "NioReadvSyscall::readv (impl_nio_read_iovec!)", "NioWritevSyscall::writev (impl_nio_write_iovec!)",
         "NioRecvmsgSyscall::recvmsg", "NioSendmsgSyscall::sendmsg", "NioAcceptSyscall::accept (impl_nio_read!)",
         "NioConnectSyscall::connect", "syscall::unix::{is_blocking, set_blocking, set_non_blocking, reset_errno, set_errno}"]
ASSUME = [
    "the kernel is a scripted peer: every inner call answers, by nondeterministic choice, -1/EAGAIN, -1/EINTR, -1/<one of ECONNRESET, EPIPE, EBADF, ENOTCONN> or a count in 0..=requested (0 only for reads = end of stream, or for zero-length requests), and moves that many bytes of a numbered stream into / out of exactly the ranges it was handed",
    "the descriptor is a socket (is_socket -> true); its O_NONBLOCK bit is one flag word: the two crate functions that call fcntl (set_non_blocking_flag, is_non_blocking) are replaced by their contracts over it, their callers are executed for real",
    "time limit: any u64 > 0 (that get_time_limit never yields 0 is C28/C19); clock: any monotone u64; wait_read_event / wait_write_event: counted, any io::Result",
    "BOUNDED: the retry loops have no structural bound (EINTR / EAGAIN can repeat); the length of the kernel script and the buffer shapes are bounded as stated per unit, enforced by kani::assume so unwinding assertions hold; never counted as proved",
    "the other expansions of the same macros (recv, recvfrom, pread, send, sendto, pwrite, preadv, pwritev, accept4) are the same token trees with other argument lists and are not instantiated here",
    "single-threaded; the caller is a plain thread (the coroutine case only adds state changes inside wait_*_event, which is stubbed)",
]
TRUSTED = ["Kani 0.68 / CBMC 6.11", "feature `log` off"]
TECH = "contract-based deductive verification (bounded): Kani harness contracts on the real NIO wrappers against a scripted-kernel environment contract"


def native_replay_nio(v, path):
    ob = v["obligation"]
    m = [("zero_length", "c16_native_zero_len"), ("minus_one_only_after", "c16_native_zero_len"), ("nonblocking", "c16_native_nonblocking"),
         ("element_count", "c16_native_recvmsg_iovlen"), ("range_", "c16_native_readv_retry_offset"), ("in_order", "c16_native_readv_retry_offset"),
         ("total_bytes", "c16_native_readv_total"), ("minus_one_only_if", "c16_native_readv_total")]
    test = next((t for k, t in m if k in ob), None)
    if not test:
        return None
    rc, out = native.run_test("C16", "native/c16_replay.rs", "core/src/syscall/unix/recvmsg.rs", test)
    return native.verdict(rc, out, dict(test=test, decisive=False, scenario="fixed: " + test))

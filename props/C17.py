"""C17 — hooked vectored I/O only hands the kernel the caller's unfilled buffers (DESIGN.md 4, C16/C17/C18; bounded)."""
import os, sys
sys.path.insert(0, os.path.dirname(os.path.abspath(__file__)))
import _nio as N

CONFIG = dict(
    id="C17", level="other", shims=N.SHIMS, inject=N.INJECT,
    kani=[N.U[k] for k in ('readv', 'writev', 'recvmsg', 'sendmsg', 'readv3', 'writev3', 'recvmsg3', 'sendmsg3')],
    functions=N.FUNCS, assumptions=N.ASSUME,
    bounds="per unit: " + N.BB + " (read/write) ; " + N.BV + " (vectored)",
    explanation='Bounded stand-in (contract-based, Kani): obligations asserted inside the scripted kernel at every inner vectored call (the only place where what is handed down is observable), for every script and iovec shape within the stated bound.',
    manifest=dict(text="Bounded stand-in. Inside the scripted kernel, at every inner readv / writev / recvmsg / sendmsg call, for every script of <= 3 answers and every shape of two iovecs of <= 2 bytes: the element count handed down is dereferenceable as that many elements of the array handed down (kani::mem::can_dereference on the slice; a larger count is an out-of-bounds read of the hook's own array), there are no more elements than the caller has unfilled, and every non-empty element lies inside one caller iovec, at or after the first byte not yet transferred, in order, never covering a byte already transferred. Tests use two entries and single-shot transfers.", note='Bounded (script length, two iovecs of <= 2 bytes), never counted as proved. Same trusted base as C16.', technique=N.TECH),
    trusted=N.TRUSTED,
)
native_replay = N.native_replay_nio

"""C25 — coroutine-local storage is private, map-like and released with the coroutine (DESIGN.md 4, C25)."""
import os, sys
sys.path.insert(0, os.path.join(os.path.dirname(os.path.abspath(__file__)), "..", "lib"))
import native

CONFIG = dict(
    id="C25",
    level="proof",
    shims=["dashmap", "once_cell", "corosensei"],
    inject=[("harness/C25/local.rs", "core/src/coroutine/local.rs", "kani"),
            ("harness/C25/owner.rs", "core/src/coroutine/korosensei.rs", "kani")],
    kani=[dict(name="c25_map_step", tier="quick"), dict(name="c25_drop_releases_values", tier="quick"),
          dict(name="c25_three_step_histories", tier="quick", bounded="3 operations after any initial map state, two keys"),
          dict(name="c25_dropping_the_coroutine_releases_its_locals", tier="quick"),
          dict(name="c25_drop_releases_zero_sized_values", tier="quick"),
          dict(name="c25_four_step_histories", tier="thorough", bounded="4 operations after any initial map state, two keys", timeout=2400)],
    functions=["CoroutineLocal::put", "CoroutineLocal::get", "CoroutineLocal::get_mut", "CoroutineLocal::remove",
               "<CoroutineLocal as Drop>::drop", "<Coroutine as Drop>::drop (releases the local storage in every lifecycle state)"],
    assumptions=[
        "dashmap replaced by its sequential map contract (executable specification, <= 3 entries; two keys used)",
        "callers read a key back with the type they stored (the API is unchecked for anything else)",
        "Coroutine derefs to its CoroutineLocal field (struct field; read off korosensei.rs); that dropping the coroutine drops the stored values is proved on the real Drop impl with a struct-literal coroutine and the corosensei contract shim (started/done flags arbitrary)",
    ],
    bounds="induction over the map view on two keys: any state x one operation; values are arbitrary u32 identities",
    manifest=dict(
        text="Proof over the map contract. For every map state over two keys (built from arbitrary values), every operation on either key and a second, independent instance, Kani proves on the real put/get/get_mut/remove: put returns the previous value, get the latest, get_mut aliases the stored value, remove returns it and deletes the key, the other key and the other instance are unchanged, nothing is dropped behind the caller's back; and with a drop-counting value type, dropping the owner drops every stored value exactly once and nothing of another owner - for the CoroutineLocal itself and for the real Drop of a Coroutine in every lifecycle state (never started, suspended mid-body, finished); a bounded unit (3 operations after any initial state) additionally covers state an implementation may keep outside the map between operations. A unit test walks one key through one sequence.",
        note="Trusted: dashmap shim (sequential map contract), once_cell shim. The Deref from Coroutine to its local storage is a struct field access read off the source.",
        technique="contract-based deductive verification: Kani harness contracts against an abstract map view with drop-counting ghost state",
    ),
    trusted=["Kani 0.68 / CBMC 6.11", "feature `log` off"],
)


def native_replay(v, path):
    # fixed scenario (two stored values, owner dropped): confirms, never overrules
    if "dropped" not in v["obligation"]:
        return None
    rc, out = native.run_test("C25", "native/c25_replay.rs", "core/src/coroutine/local.rs", "c25_native_replay")
    return native.verdict(rc, out, dict(decisive=False, scenario="fixed: c25_native_replay"))

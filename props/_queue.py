"""Shared configuration of the work-steal queue family (C03, C04, C05, C06): one harness module per queue flavour,
units assigned per property (DESIGN.md 4, C03-C06)."""
import os, sys
sys.path.insert(0, os.path.join(os.path.dirname(os.path.abspath(__file__)), "..", "lib"))
import native

SHIMS = ["crossbeam-skiplist", "st3", "crossbeam-deque", "rand"]
INJECT = [("harness/Q/ordered.rs", "core/src/common/ordered_work_steal.rs", "kani"),
          ("harness/Q/plain.rs", "core/src/common/work_steal.rs", "kani")]
B = "one shared + two local queues, capacity 2, <= 2 priorities x <= 2 items per queue, arbitrary items and priorities (i64 extremes included)"
U = dict(
    o_tick=dict(name="q_ordered_tick_contract"),
    o_order=dict(name="q_ordered_pop_consultation_order"),
    o_pop_local=dict(name="q_ordered_pop_local_contract", bounded=B),
    o_shared=dict(name="q_ordered_shared_push_pop", bounded=B, timeout=900),
    o_idle0=dict(name="q_ordered_idle_pop_finds_work_start0", bounded=B, timeout=1500, unwind=5, unwind_is_obligation="C04.pop_returns_from_every_reachable_state[unwinding assertion]"),
    o_idle1=dict(name="q_ordered_idle_pop_finds_work_start1", bounded=B, timeout=1500, unwind=5, unwind_is_obligation="C04.pop_returns_from_every_reachable_state[unwinding assertion]"),
    o_push=dict(name="q_ordered_local_push", bounded=B + " (push unit: capacity 4)", timeout=1800, unwind=7, unwind_is_obligation="C04.push_returns_from_every_reachable_state[unwinding assertion]"),
    p_tick=dict(name="p_tick_contract"),
    p_order=dict(name="p_pop_consultation_order", bounded="local worker of capacity 2, any content"),
    p_shared=dict(name="p_shared_push_pop", bounded="<= 3 items"),
    p_push=dict(name="p_local_push", bounded="capacity 2, any content", unwind=6, unwind_is_obligation="C04.push_returns_from_every_reachable_state[unwinding assertion]"),
    p_idle0=dict(name="p_idle_pop_finds_work_start0", bounded="sibling of capacity 2, any content", unwind=6, unwind_is_obligation="C04.pop_returns_from_every_reachable_state[unwinding assertion]"),
    p_idle1=dict(name="p_idle_pop_finds_work_start1", bounded="sibling of capacity 2, any content", unwind=6, unwind_is_obligation="C04.pop_returns_from_every_reachable_state[unwinding assertion]"),
)
FUNCS = ["OrderedWorkStealQueue::{push_with_priority, pop}", "OrderedLocalQueue::{push_with_priority, push_to_global, pop, pop_local, tick, can_steal, max_steal}",
         "WorkStealQueue::{push, pop}", "LocalQueue::{push, pop, tick}"]
ASSUME = [
    "dependency shims as assumed contracts: crossbeam-skiplist (ordered map, stable entries, ascending iteration, <= 3 priorities per map), st3 (bounded FIFO worker; steal moves min(count_fn(n), n, free) oldest items), crossbeam-deque Injector (FIFO, steal never answers Retry), rand (the draw is the harness's choice: both victim orders are covered)",
    "sequential only: atomics executed sequentially; interleavings of pushes/pops/steals between threads are NOT decided (no thread support in Kani)",
    "states are written directly into the containers (struct literals), not reached through new()/local_queue()",
    "modular: where a unit stubs the shared queue's pop/push or pop_local, the stub is that callee's contract, and the callee has its own unit on the real code",
]
TRUSTED = ["Kani 0.68 / CBMC 6.11", "feature `log` off"]


def native_replay_q(v, path):
    ob = v["obligation"]
    if "push_returns" in ob or "unwinding" in v.get("desc", ""):
        test = "q_native_push_after_being_drained"
    elif "idle_local_queue_obtains" in ob:
        test = "q_native_idle_pop_with_stale_counter"
    else:
        return None
    rc, out = native.run_test("Q", "native/q_replay.rs", "core/src/common/ordered_work_steal.rs", test)
    return native.verdict(rc, out, dict(test=test, decisive=False, scenario="fixed: " + test))


def conformance(run):
    """shim conformance (DESIGN 3.2): the scenarios of contracts/conformance must hold natively on the real crates
    and under Kani on the shims; otherwise the run is inconclusive"""
    import subprocess, time, os
    t0 = time.time()
    p = subprocess.run([os.path.join(os.path.dirname(os.path.abspath(__file__)), "..", "tools", "conformance.sh")],
                       stdout=subprocess.PIPE, stderr=subprocess.STDOUT, text=True)
    lines = [l for l in p.stdout.splitlines() if l.startswith("conformance")]
    run.units.append(dict(unit="shim_conformance", backend="cargo test (real crates) + kani (shims)",
                          verdict="discharged" if p.returncode == 0 else "undecided", detail=lines, wall_s=round(time.time() - t0, 1)))
    run.cmds.append("tools/conformance.sh")
    if p.returncode != 0:
        run.inconclusive.append("shim conformance failed: " + " | ".join(lines))

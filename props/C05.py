"""C05 — higher-priority work is served first, FIFO among equals (DESIGN.md 4, C05/C04/C03)."""
import os, sys
sys.path.insert(0, os.path.dirname(os.path.abspath(__file__)))
import _queue as Q

CONFIG = dict(
    id="C05", level="other", shims=Q.SHIMS, inject=Q.INJECT,
    kani=[Q.U[k] for k in ('o_pop_local', 'o_shared', 'o_push', 'o_idle0', 'o_idle1', 'p_shared', 'p_push', 'p_order')],
    functions=Q.FUNCS, assumptions=Q.ASSUME + ['PARTIAL/BOUNDED: single-operation obligations from every state of a bounded configuration; a history is a sequence of such steps, but priorities per map (<= 3) and items per priority (<= 2) are bounded, so this is a bounded stand-in, not a proof for all capacities'],
    bounds=Q.B,
    explanation='Bounded stand-in (contract-based, Kani): single-operation order obligations on the real queue functions from every state of a bounded configuration. Not counted as proved: the configuration (capacity 2, <= 2 occupied priorities per map, <= 2 items per priority) is a bound on the state space, not on the history length.',
    manifest=dict(
        text="Bounded stand-in. From every state of a bounded configuration (capacity 2, <= 2 occupied priorities per map with arbitrary i64 keys incl. the extremes, <= 2 items per priority, arbitrary items) and for every single operation, Kani proves on the real code: pop_local and the shared pop return the head of the smallest non-empty priority of that queue; push_with_priority files the new item behind its equals in the queue it goes to and never changes which waiting item is served next unless the new one is more urgent; whatever overflows to the shared queue or is stolen by a sibling keeps its priority key, and a steal serves the victim's most urgent item first; the plain queue is FIFO. Any single-threaded history is a sequence of such steps. Tests run one fixed push-all-then-pop-all sequence.",
        note='Bounded (state space of the configuration), sequential only; queue dependency shims are assumed contracts; the single-pool-worker clause follows from the local-queue obligations while no overflow happens (C05.no_overflow_below_capacity).',
        technique='contract-based deductive verification (bounded): Kani single-operation contracts over an abstract view (priority -> sequence) of the real ordered queue, from every state of a bounded configuration',
    ),
    trusted=Q.TRUSTED,
)
native_replay = Q.native_replay_q
extra = Q.conformance

"""C11 — pool worker count is exact and bounded (DESIGN.md 4, C11; partial claim)."""
CONFIG = dict(
    id="C11",
    level="proof",
    shims=["dashmap", "once_cell", "num_cpus", "crossbeam-skiplist", "corosensei"],
    inject=[("harness/C11/co_pool.rs", "core/src/co_pool/mod.rs", "kani")],
    kani=[dict(name="c11_submit_co_counts_created_workers"), dict(name="c11_listener_counts_ended_workers")],
    functions=["CoroutinePool::submit_co", "CoroutinePool::try_grow", "<CoroutineCreator as Listener>::on_state_changed",
               "CoroutinePool::get_running_size / set_max_size", "CoroutinePool::new (constructor, executed for real)"],
    assumptions=[
        "PARTIAL: the counter's two update sites are verified against a ghost count of workers really created / ended; that every worker coroutine which stops existing is reported to the listener with a terminal state is a property of Scheduler::do_schedule (its CANCEL_COROUTINES branch drops a coroutine without a terminal report - read from the source, std HashMap/BinaryHeap put do_schedule out of CBMC's reach) and is NOT decided; neither is `stop returns promptly` (threads, condvars)",
        "Scheduler::submit_co (coroutine creation) represented by its contract: creates exactly one worker and answers Ok, or creates none and answers Err (both explored)",
        "CoroutinePool::current() (thread-local accessor) and the task queue's is_empty() represented by harness-controlled values (both answers explored)",
        "dashmap, once_cell, num_cpus, crossbeam-skiplist, corosensei shims; catch_unwind call-through; format! stubbed; sequential only",
    ],
    bounds="none: loop-free, every counter value, every maximum, every reported state",
    manifest=dict(
        text="Proof (partial claim). The running counter is written at two sites only. For every counter value and maximum with running <= max, Kani proves on the real code: CoroutinePool::submit_co refuses at the maximum without creating anything, and otherwise raises the counter by exactly the number of workers really created (1 on success, 0 when coroutine creation fails); the creator listener, for every reported new state, queue empty or not, replacement creation succeeding or failing, leaves running == running - (1 if the reporting worker ended: Complete, Error, Cancelled) + (replacement workers really created), never below zero and never above the maximum. By induction over reports, running equals created minus ended workers. NOT decided: that every worker which stops existing is reported (the scheduler's cancel branch), and stop latency.",
        note="Partial. Trusted: the creation contract for Scheduler::submit_co, harness-controlled CoroutinePool::current() and queue emptiness, shims. Sequential only.",
        technique="contract-based deductive verification: Kani full-domain harness contracts on the real counter update sites against a ghost count of live workers (callee contract for coroutine creation)",
    ),
    trusted=["Kani 0.68 / CBMC 6.11", "feature `log` off"],
)

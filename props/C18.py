"""C18 — non-blocking sockets keep non-blocking semantics under the hook (DESIGN.md 4, C16/C17/C18; bounded)."""
import os, sys
sys.path.insert(0, os.path.dirname(os.path.abspath(__file__)))
import _nio as N

CONFIG = dict(
    id="C18", level="other", shims=N.SHIMS, inject=N.INJECT,
    kani=[N.U[k] for k in ('read', 'write', 'readv', 'writev', 'recvmsg', 'sendmsg', 'accept', 'connect', 'read_long', 'write_long')],
    functions=N.FUNCS, assumptions=N.ASSUME,
    bounds="per unit: " + N.BB + " (read/write) ; " + N.BV + " (vectored)",
    explanation="Bounded stand-in (contract-based, Kani): blocking-mode obligations on every return path of the real NIO wrappers against the scripted kernel and a one-word model of the descriptor's O_NONBLOCK flag, for every script within the stated bound and both caller modes.",
    manifest=dict(text="Bounded stand-in. For the real hooked accept, connect, read, write, readv, writev, recvmsg, sendmsg, both caller modes and every kernel script within the bound, Kani proves: on every return path the descriptor's O_NONBLOCK bit equals its value at entry (whatever the outcome: success, partial, end of stream, hard error, failed wait, time-out); every inner call runs with O_NONBLOCK set; and if the caller had set O_NONBLOCK itself, the call never waits for readiness and makes no further kernel call after a would-block - it returns -1 with EAGAIN (EINPROGRESS for connect), or the bytes already moved. The hook/src wrappers (process-wide dispatch) are outside the units.", note='Bounded (script length), never counted as proved; `inside and outside coroutines`: only the plain-thread caller is executed (the coroutine case differs inside the stubbed wait). Same trusted base as C16.', technique=N.TECH),
    trusted=N.TRUSTED,
)
native_replay = N.native_replay_nio

"""C12 — pool lifecycle: stop rejects new work and settles every waiter (DESIGN.md 4, C12; partial claim)."""
import os, sys
sys.path.insert(0, os.path.join(os.path.dirname(os.path.abspath(__file__)), "..", "lib"))
import native

CONFIG = dict(
    id="C12",
    level="proof",
    shims=["dashmap", "once_cell", "num_cpus", "crossbeam-skiplist", "corosensei"],
    inject=[("harness/C12/co_pool.rs", "core/src/co_pool/mod.rs", "kani"),
            ("harness/C11/co_pool.rs", "core/src/co_pool/mod.rs", "kani"),
            ("harness/common/task_mk.rs", "core/src/co_pool/task.rs", "kani", "pub(crate)")],
    kani=[
        dict(name="c12_lifecycle_step", tier="quick"),
        dict(name="c12_submit_rejected_after_stop_begins", tier="quick"),
        dict(name="c12_clean_settles_every_waiter", tier="quick"),
        dict(name="c11_listener_counts_ended_workers", tier="quick"),
        dict(name="c12_stop_settles_every_waiter", tier="quick", bounded="<= 2 scheduling rounds (the time limit is reached by the second)"),
    ],
    functions=["CoroutinePool::change_state", "CoroutinePool::stopping", "CoroutinePool::stopped", "CoroutinePool::submit_task (state guard)",
               "CoroutinePool::stop", "CoroutinePool::do_stop", "CoroutinePool::do_clean", "CoroutinePool::notify", "CoroutinePool::new (constructor, executed for real)"],
    assumptions=[
        "PARTIAL: `every task accepted earlier runs before stop reports success` and the stop/submit races are schedule properties of do_stop / EventLoop::start (threads, condvars) and are not decided here",
        "dashmap shim: sequential map contract plus the real crate's locking precondition (a write while a reference into the map is alive is a deadlock)",
        "once_cell, num_cpus, crossbeam-skiplist, corosensei shims; catch_unwind call-through; format! stubbed",
        "at most 2 registered waiters (shim capacity 3); stop(): try_timeout_schedule_task, thread::sleep, the clock and the task queue's is_empty() are contract stubs (<= 2 scheduling rounds)",
    ],
    bounds="state guard obligations: full 3-state domain, loop-free; do_clean: <= 2 registered waiters, all task ids",
    manifest=dict(
        text="Proof (partial claim). On a pool built by the real constructor: from every pool state each lifecycle operation moves the state at most one step forward along Running->Stopping->Stopped and a refused call changes nothing; a submission in Stopping/Stopped is rejected and leaves queue, maps and state untouched; after the final clean-up every task id with a registered waiter has an error result, its waiter is released and unregistered, and the map operations respect the dependency's locking precondition (so the clean-up itself cannot block forever); and, with the scheduling rounds represented by their contract (workers may or may not finish, scheduling may fail, the time limit is reached by the second round), whenever stop() reports success - from Running, Stopping or Stopped, with or without work still running - the pool is Stopped and every registered waiter has been settled; and (so that accepted work is not stranded during the drain) a worker that ends abnormally while tasks are queued is replaced whenever a replacement can be created (unit shared with C11). Not decided: that every accepted task runs before stop reports success, and submit/stop races (schedule properties).",
        note="Trusted: dashmap shim incl. its locking contract, once_cell/num_cpus/crossbeam-skiplist/corosensei shims, catch_unwind call-through. Sequential only; <= 2 waiters.",
        technique="contract-based deductive verification: Kani harness contracts on the real pool (state guard, submit guard, clean-up) with the dependency's locking precondition as a callee contract",
    ),
    trusted=["Kani 0.68 / CBMC 6.11", "feature `log` off"],
)


def native_replay(v, path):
    # fixed scenario (final clean-up with one registered waiter): confirms, never overrules
    if not ("waiter" in v["obligation"] or "dependency_contract" in v["obligation"]):
        return None
    rc, out = native.run_test("C12", "native/c12_replay.rs", "core/src/co_pool/mod.rs", "c12_native_replay", timeout=300)
    return native.verdict(rc, out, dict(decisive=False, scenario="fixed: c12_native_replay"))

"""C09 — delay and cancel requests affect only the coroutine that made them (DESIGN.md 4, C09)."""
import os, sys
sys.path.insert(0, os.path.join(os.path.dirname(os.path.abspath(__file__)), "..", "lib"))
import native

CONFIG = dict(
    id="C09",
    level="proof",
    shims=["corosensei", "dashmap", "once_cell"],
    inject=[("harness/C07/korosensei.rs", "core/src/coroutine/korosensei.rs", "kani", "pub(crate)")],
    kani=[
        dict(name="c09_requests_stay_with_their_yield", tier="quick", timeout=900),
        dict(name="c09_second_coroutine_plain_suspend", tier="quick", timeout=900),
    ],
    functions=["Coroutine::resume_with", "Coroutine::raw_resume", "Coroutine::running/suspend/cancel/syscall (callees)"],
    assumptions=[
        "Suspender::timestamp / is_cancel: contract `pop the front of this thread's stack, default 0 / false`; until_with / cancel: `push, then yield` (transcribed from suspender.rs: thread_local bodies cannot be executed by Kani)",
        "corosensei contract (shim): resume runs the body up to its next yield or return; the body acts only through the public API; one nondeterministic body step per resume",
        "catch_unwind call-through; clock arbitrary; format! stubbed; init_current/clean_current/signal-handler installers are no-ops",
        "Inv: both request stacks are empty while no coroutine runs on the thread (established initially, re-established by O9.1)",
    ],
    manifest=dict(
        text="Proof, loop-free. For every state the coroutine can be in at a yield (Running, or Syscall of any call and sub-state - hooked waits yield with until(ts) while in a syscall state), every request (none / until(ts) for every ts / cancel / a cancel landing while an until(ts) request is already pending) and every clock, Kani proves on the real resume_with -> raw_resume that both per-thread request stacks are empty again when the resume returns (frame condition, so nothing a coroutine requested can reach a later coroutine on the thread), that a reported Suspend carries exactly the requested time (0 for a plain suspend) and Cancelled is reported only if requested; a two-coroutine harness states the consequence directly. Tests never mix syscall-state yields with plain suspends on one thread.",
        note="Trusted: the two-line contracts of the thread-local request stacks, the corosensei contract shim, catch_unwind call-through, TLS current-pointer accessors stubbed.",
        technique="contract-based deductive verification: Kani harness contracts on the real resume path with a frame condition over modelled per-thread request stacks",
    ),
    trusted=["Kani 0.68 / CBMC 6.11", "feature `log` off"],
)


def native_replay(v, path):
    # fixed scenarios, each confirms and never overrules: (1) two real coroutines, a syscall-state yield then a
    # plain suspend; (2) white-box: both requests pending at one yield (cancel lands during until), then a plain suspend
    if not v["obligation"].startswith("C09."):
        return None
    rc, out = native.run_test("C09", "native/c09_replay.rs", "core/src/coroutine/korosensei.rs", "c09_native_replay")
    d = native.verdict(rc, out, dict(decisive=False, scenario="fixed: c09_native_replay"))
    if not d.get("reproduced"):
        rc, out = native.run_test("C09", "native/c09b_replay.rs", "core/src/coroutine/suspender.rs", "c09_native_cancel_during_until")
        d2 = native.verdict(rc, out, dict(decisive=False, scenario="fixed: c09_native_cancel_during_until"))
        if d2.get("reproduced"):
            return d2
    return d

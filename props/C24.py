"""C24 — a memory fault in a coroutine only fails that coroutine (DESIGN.md 4, C24; partial claim: classification)."""
CONFIG = dict(
    id="C24",
    level="proof",
    shims=["dashmap", "once_cell", "corosensei"],
    inject=[("harness/C24/korosensei.rs", "core/src/coroutine/korosensei.rs", "kani")],
    kani=[dict(name="c24_stack_ptr_in_bounds_is_membership", bounded="<= 3 stack segments"),
          dict(name="c24_trap_handler_classifies_by_the_coroutines_segments", bounded="initial stack + at most one grown segment"),
          dict(name="c24_trap_handler_runs_on_the_alternate_stack")],
    functions=["Coroutine::stack_ptr_in_bounds", "Coroutine::trap_handler (unix, x86_64 branch)", "Coroutine::setup_trap_handler"],
    assumptions=[
        "PARTIAL: decided is the classification clause only (`reported as a stack overflow exactly when the faulting stack pointer lies outside the coroutine's stack segments`) and that the handler hands the fault to corosensei's trap path and redirects the faulting thread's registers; that the redirected thread really unwinds into the coroutine's error return while the resuming thread and every other coroutine continue is corosensei's trap mechanism (asm, ucontext, a real SIGSEGV on an alternate stack) and is NOT decided",
        "corosensei contract shim: setup_trap_handler(closure) evaluates the closure (the value the coroutine will return) and answers fixed register values; its own stack_ptr_in_bounds knows the initial stack only",
        "Coroutine::current() (thread-local accessor) represented by a harness cell; struct-literal coroutine; 1..=3 segments with arbitrary bounds; stack pointer in the lower half of the address space; x86_64 Linux branch of the handler (the compiled one)",
        "signal installation: nix::sys::signal::sigaction represented by a recorder; obligation: SIGSEGV and SIGBUS are both handled, with SA_ONSTACK (a stack overflow leaves no room for a signal frame on the faulting stack) and SA_SIGINFO (the handler reads the faulting context); that an alternate stack is actually registered for the thread is not decided",
    ],
    bounds="segments: <= 3 (predicate), initial + <= 1 grown (handler); every stack pointer value",
    manifest=dict(
        text="Proof for the classification clause (partial claim). For every list of up to three stack segments with arbitrary bounds and every 64-bit stack pointer, Kani proves on the real stack_ptr_in_bounds that it answers true exactly when the pointer lies in some segment; and on the real trap_handler (the signal-handler body, x86_64 Linux branch) with a fabricated ucontext, for every fault stack pointer and a coroutine holding its initial stack plus possibly one grown segment with arbitrary bounds: the fault is handed to the coroutine's trap path exactly once, the value the coroutine will end with is Err(\"stack overflow\") exactly when the pointer lies outside all of the coroutine's segments and Err(\"invalid memory reference\") otherwise, and the faulting thread's instruction and stack pointers are redirected. NOT decided: the actual fault isolation (asm trap path, alternate signal stack, other coroutines continuing).",
        note="Partial: classification only. Trusted: corosensei trap contract shim, harness-controlled current(), struct-literal coroutine. The tests fault once on an initial stack.",
        technique="contract-based deductive verification: Kani full-domain harness contracts on the real classification predicate and signal-handler body against a corosensei trap contract",
    ),
    trusted=["Kani 0.68 / CBMC 6.11", "feature `log` off"],
)

"""C19 — socket timeout options are tracked per live socket without crashing (DESIGN.md 4, C19)."""
import os, sys, re
sys.path.insert(0, os.path.join(os.path.dirname(os.path.abspath(__file__)), "..", "lib"))
import native

CONFIG = dict(
    id="C19",
    level="proof",
    shims=["dashmap", "once_cell"],
    inject=[
        ("harness/C19/model.rs", "core/src/syscall/unix/mod.rs", "kani"),
        ("harness/C19/setsockopt.rs", "core/src/syscall/unix/setsockopt.rs", "kani"),
        ("harness/C19/close.rs", "core/src/syscall/unix/close.rs", "kani"),
    ],
    kani=[
        dict(name="c19_time_limit_step", tier="quick"),
        dict(name="c19_setsockopt_step", tier="quick"),
        dict(name="c19_close_step", tier="quick"),
    ],
    functions=["syscall::unix::send_time_limit", "syscall::unix::recv_time_limit",
               "NioSetsockoptSyscall::setsockopt", "NioCloseSyscall::close"],
    assumptions=[
        "kernel model: per descriptor two timeout options; getsockopt returns them; the inner setsockopt stores the value iff it returns 0; close ends the socket and a reused number denotes a fresh socket with default (zero) options",
        "get_time_limit replaced by an injective multiplication-free stand-in on tv_sec < 2^40, 0 <= tv_usec < 10^6 (its arithmetic is O28.3)",
        "dashmap / once_cell replaced by sequential executable specifications (<= 3 entries per map; two descriptors used)",
        "EventLoops::del_event stubbed to Ok (its bookkeeping is C21)",
        "single-threaded histories",
    ],
    bounds="induction over the per-descriptor abstract state: any state satisfying Inv x one operation; two descriptors; no bound on history length",
    manifest=dict(
        text="Proof by induction over the per-descriptor abstract state (kernel option value x cache entry absent/present). For every state satisfying the invariant `cached = limit(option)` and every single operation (time-limit query, setsockopt with any level/name/value and any kernel answer, close) Kani proves on the real functions: no panic, the applied limit equals the current option value (0 = unlimited), the invariant holds afterwards for both descriptors, and untouched entries are unchanged. This covers histories of any length, including states no test reaches (a cache entry that exists before setsockopt; a reused descriptor number).",
        note="Trusted: the libc getsockopt model and scripted inner setsockopt/close (kernel contract), dashmap/once_cell shims, the injective stand-in for get_time_limit (arithmetic proved in C28), del_event stubbed. Sequential only.",
        technique="contract-based deductive verification: inductive invariant over an abstract per-descriptor state, Kani harness contracts on the real functions against a kernel model",
    ),
    trusted=["Kani 0.68 / CBMC 6.11", "feature `log` off"],
)


def native_replay(v, path):
    ob = v["obligation"]
    # fixed scenarios on real sockets: confirm, never overrule
    if "close" in ob or "reused" in ob:
        test = "c19_native_close_reuse"
    elif "setsockopt" in ob or ".safety[" in ob or ".no_panic[" in ob:
        test = "c19_native_set_twice"
    else:
        return None
    rc, out = native.run_test("C19", "native/c19_replay.rs", "core/src/syscall/unix/mod.rs", test)
    d = native.verdict(rc, out, dict(test=test, decisive=False, scenario="fixed: " + test))
    if d["reproduced"] is None and "VERIF-REPLAY-ABORTED" in out and re.search(r"assertion failed: (RECV|SEND)_TIME_LIMIT\s*\.insert", out):
        d["reproduced"] = True
        d["lines"].append("child stderr carries the crate's own assertion: " + re.search(r"assertion failed: (RECV|SEND)_TIME_LIMIT\s*\.insert[^\n]*", out).group(0))
    return d

//! Conformance scenarios for the dependency shims used by the queue and pool harnesses: every statement below is
//! a fact about the REAL crate's sequential behaviour that the harnesses rely on. `cargo test` runs them against
//! the real crates; `cargo kani` (with the shims patched in) runs the same functions against the shims.
#![allow(clippy::all)]
use crossbeam_deque::{Injector, Steal};
use crossbeam_skiplist::SkipMap;
use st3::fifo::Worker;

/// st3 worker: bounded FIFO, push fails when full and hands the item back, capacity arithmetic, steal moves the
/// OLDEST items, as many as the closure allows, and reports how many
pub fn st3_worker_contract() {
    let w: Worker<u8> = Worker::new(2);
    assert_eq!(w.capacity(), 2);
    assert_eq!(w.spare_capacity(), 2);
    assert!(w.is_empty());
    assert!(w.push(1).is_ok());
    assert!(w.push(2).is_ok());
    assert_eq!(w.spare_capacity(), 0);
    assert_eq!(w.push(3), Err(3));
    assert_eq!(w.pop(), Some(1));
    assert!(w.push(3).is_ok());
    // steal one (of two) into an empty destination: the oldest goes
    let d: Worker<u8> = Worker::new(2);
    let r = w.stealer().steal(&d, |n| { assert_eq!(n, 2); 1 });
    assert_eq!(r.ok(), Some(1));
    assert_eq!(d.pop(), Some(2));
    assert_eq!(w.pop(), Some(3));
    assert_eq!(w.pop(), None);
    // nothing to steal: an error, nothing moves
    assert!(w.stealer().steal(&d, |n| n).is_err());
    assert!(d.is_empty());
    // the closure may ask for more than there is room for: capped by the destination's spare capacity
    assert!(w.push(7).is_ok());
    assert!(w.push(8).is_ok());
    assert!(d.push(9).is_ok());
    let r = w.stealer().steal(&d, |n| n);
    assert_eq!(r.ok(), Some(1));
    assert_eq!(d.pop(), Some(9));
    assert_eq!(d.pop(), Some(7));
    assert_eq!(w.pop(), Some(8));
}

/// crossbeam injector: FIFO; steal on empty answers Empty
pub fn injector_contract() {
    let q: Injector<u8> = Injector::new();
    assert!(matches!(q.steal(), Steal::Empty));
    q.push(1);
    q.push(2);
    q.push(3);
    let mut got = [0u8; 3];
    let mut i = 0;
    while i < 3 {
        // the real injector may answer Retry under contention; sequentially it does not (bounded retry here)
        let mut tries = 0;
        loop { match q.steal() { Steal::Success(v) => { got[i] = v; break; } Steal::Retry => { tries += 1; assert!(tries < 4); } Steal::Empty => panic!("lost an item") } }
        i += 1;
    }
    assert!(got[0] == 1 && got[1] == 2 && got[2] == 3);
    assert!(matches!(q.steal(), Steal::Empty));
}

/// skip map: get_or_insert_with inserts once and returns the existing entry afterwards; iteration ascends by key
/// (also over the i64 extremes), reverse iteration descends; entries are stable while others are inserted
pub fn skipmap_contract() {
    let m: SkipMap<i64, Worker<u8>> = SkipMap::new();
    let e = m.get_or_insert_with(5, || Worker::new(2));
    assert!(e.value().push(50).is_ok());
    let e2 = m.get_or_insert_with(5, || panic!("must not be called for an existing key"));
    assert_eq!(*e2.key(), 5);
    assert_eq!(e2.value().pop(), Some(50));
    let _ = m.get_or_insert_with(i64::MAX, || Worker::new(2));
    let _ = m.get_or_insert_with(i64::MIN, || Worker::new(2));
    assert!(e.value().push(51).is_ok()); // the first entry is still the same object
    let mut keys = [0i64; 3];
    let mut n = 0;
    for en in &m { keys[n] = *en.key(); n += 1; }
    assert_eq!(n, 3);
    assert!(keys[0] == i64::MIN && keys[1] == 5 && keys[2] == i64::MAX);
    let mut n = 0;
    for en in m.iter().rev() { keys[n] = *en.key(); n += 1; }
    assert!(keys[0] == i64::MAX && keys[1] == 5 && keys[2] == i64::MIN);
    assert_eq!(m.get_or_insert_with(5, || Worker::new(2)).value().pop(), Some(51));
    // range: bounds are honoured, ascending order
    let mut n = 0;
    for en in m.range(5..) { keys[n] = *en.key(); n += 1; }
    assert!(n == 2 && keys[0] == 5 && keys[1] == i64::MAX);
    let mut n = 0;
    for en in m.range(..=5) { keys[n] = *en.key(); n += 1; }
    assert!(n == 2 && keys[0] == i64::MIN && keys[1] == 5);
    assert!(m.range(6..i64::MAX).next().is_none());
}

/// dashmap: insert returns the previous value, get / contains / remove agree with it
pub fn dashmap_contract() {
    let m: dashmap::DashMap<u64, u64> = dashmap::DashMap::new();
    assert!(m.insert(1, 10).is_none());
    assert_eq!(m.insert(1, 11), Some(10));
    assert_eq!(m.get(&1).map(|e| *e.value()), Some(11));
    assert!(m.contains_key(&1) && !m.contains_key(&2));
    assert_eq!(m.remove(&1), Some((1, 11)));
    assert!(m.remove(&1).is_none());
    assert!(m.is_empty());
    let s: dashmap::DashSet<u64> = dashmap::DashSet::new();
    assert!(s.insert(3));
    assert!(!s.insert(3));
    assert!(s.contains(&3));
    assert_eq!(s.remove(&3), Some(3));
    assert!(!s.contains(&3));
}

#[cfg(test)]
mod native {
    #[test] fn st3_worker() { super::st3_worker_contract(); }
    #[test] fn injector() { super::injector_contract(); }
    #[test] fn skipmap() { super::skipmap_contract(); }
    #[test] fn dashmap() { super::dashmap_contract(); }
}
#[cfg(kani)]
mod shim {
    #[kani::proof] #[kani::unwind(6)] fn conf_st3_worker() { super::st3_worker_contract(); }
    #[kani::proof] #[kani::unwind(6)] fn conf_injector() { super::injector_contract(); }
    #[kani::proof] #[kani::unwind(6)] fn conf_skipmap() { super::skipmap_contract(); }
    #[kani::proof] #[kani::unwind(6)] fn conf_dashmap() { super::dashmap_contract(); }
}

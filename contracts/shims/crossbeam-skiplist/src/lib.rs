//! Verification shim: sequential, heap-free executable specification of the subset of
//! crossbeam_skiplist::SkipMap used by open-coroutine-core. Slots are stable (entries never move),
//! iteration is in ascending key order, as for the real skip list.
//!
//! Layout note: every slot is a separate object reached through its own pointer (not an array element, and not
//! stored inside the map value). The crate keeps its maps inside a heap-allocated VecDeque; data stored by value
//! there is an untyped byte array for the verifier, and every access through a reference into it became a
//! byte-level operation on the whole allocation (14 M variables for a single steal, measured). A harness hands
//! the map three typed objects of its own (`from_slots`); `new()` allocates them.
use std::cell::UnsafeCell;
pub const MAXKEYS: usize = 3;
pub struct SkipMap<K, V> { pub s0: *mut Option<(K, V)>, pub s1: *mut Option<(K, V)>, pub s2: *mut Option<(K, V)>, _own: UnsafeCell<()> }
unsafe impl<K: Send, V: Send> Sync for SkipMap<K, V> {}
unsafe impl<K: Send, V: Send> Send for SkipMap<K, V> {}
pub mod map {
    pub struct Entry<'a, K, V> { pub(crate) k: &'a K, pub(crate) v: &'a V }
    impl<'a, K, V> Entry<'a, K, V> {
        pub fn key(&self) -> &'a K { self.k }
        pub fn value(&self) -> &'a V { self.v }
    }
    /// `lo`/`hi` are exclusive key bounds already yielded from the front/back.
    /// `left`: a map holds at most MAXKEYS entries, so an iterator yields at most MAXKEYS times (a concrete counter, so
    /// that a `for` over the map has a structural bound for the verifier; it never cuts a real iteration short)
    pub struct Iter<'a, K, V> { pub(crate) m: &'a super::SkipMap<K, V>, pub(crate) lo: Option<&'a K>, pub(crate) hi: Option<&'a K>, pub(crate) left: usize,
        /// bounds of a `range(..)` iteration: (key, inclusive)
        pub(crate) rlo: Option<(K, bool)>, pub(crate) rhi: Option<(K, bool)> }
}
use map::{Entry, Iter};
impl<K: Ord, V> SkipMap<K, V> {
    pub fn new() -> Self {
        SkipMap { s0: Box::into_raw(Box::new(None)), s1: Box::into_raw(Box::new(None)), s2: Box::into_raw(Box::new(None)), _own: UnsafeCell::new(()) }
    }
    /// a map over three slot objects owned by the caller (which must outlive the map)
    /// # Safety
    /// the three pointers are valid, distinct and not used elsewhere while the map lives
    pub unsafe fn from_slots(a: *mut Option<(K, V)>, b: *mut Option<(K, V)>, c: *mut Option<(K, V)>) -> Self {
        SkipMap { s0: a, s1: b, s2: c, _own: UnsafeCell::new(()) }
    }
    /// slot `i` (a concrete index at every call site)
    #[allow(clippy::mut_from_ref)]
    pub fn slot(&self, i: usize) -> &mut Option<(K, V)> {
        unsafe { match i { 0 => &mut *self.s0, 1 => &mut *self.s1, _ => &mut *self.s2 } }
    }
    pub fn get_or_insert_with<F: FnOnce() -> V>(&self, key: K, f: F) -> Entry<'_, K, V> {
        let mut free = MAXKEYS;
        let mut i = 0;
        while i < MAXKEYS {
            match self.slot(i) { Some((k, _)) => { if *k == key { let e = self.slot(i).as_ref().unwrap(); return Entry { k: &e.0, v: &e.1 }; } } None => { if free == MAXKEYS { free = i; } } }
            i += 1;
        }
        assert!(free < MAXKEYS, "shim bound: at most MAXKEYS distinct priorities");
        // three explicit cases: the written slot is a distinct object in each
        if free == 0 { *self.slot(0) = Some((key, f())); let e = self.slot(0).as_ref().unwrap(); Entry { k: &e.0, v: &e.1 } }
        else if free == 1 { *self.slot(1) = Some((key, f())); let e = self.slot(1).as_ref().unwrap(); Entry { k: &e.0, v: &e.1 } }
        else { *self.slot(2) = Some((key, f())); let e = self.slot(2).as_ref().unwrap(); Entry { k: &e.0, v: &e.1 } }
    }
    pub fn iter(&self) -> Iter<'_, K, V> { Iter { m: self, lo: None, hi: None, left: MAXKEYS, rlo: None, rhi: None } }
    /// entries whose key lies in the range, ascending (subset of the real `range`: the bound type is the key type)
    pub fn range<R: std::ops::RangeBounds<K>>(&self, r: R) -> Iter<'_, K, V> where K: Clone {
        use std::ops::Bound::*;
        let rlo = match r.start_bound() { Included(k) => Some((k.clone(), true)), Excluded(k) => Some((k.clone(), false)), Unbounded => None };
        let rhi = match r.end_bound() { Included(k) => Some((k.clone(), true)), Excluded(k) => Some((k.clone(), false)), Unbounded => None };
        Iter { m: self, lo: None, hi: None, left: MAXKEYS, rlo, rhi }
    }
}
impl<'a, K: Ord, V> Iter<'a, K, V> {
    fn pick(&self, smallest: bool) -> Option<&'a (K, V)> {
        let mut best: Option<&'a (K, V)> = None;
        let mut i = 0;
        while i < MAXKEYS {
            let s: &'a Option<(K, V)> = unsafe { match i { 0 => &*self.m.s0, 1 => &*self.m.s1, _ => &*self.m.s2 } };
            if let Some(e) = s {
                let ok_lo = match self.lo { Some(l) => e.0 > *l, None => true };
                let ok_hi = match self.hi { Some(h) => e.0 < *h, None => true };
                let in_lo = match &self.rlo { Some((k, incl)) => if *incl { e.0 >= *k } else { e.0 > *k }, None => true };
                let in_hi = match &self.rhi { Some((k, incl)) => if *incl { e.0 <= *k } else { e.0 < *k }, None => true };
                if ok_lo && ok_hi && in_lo && in_hi {
                    match best { Some(b) => { if (smallest && e.0 < b.0) || (!smallest && e.0 > b.0) { best = Some(e); } } None => best = Some(e) }
                }
            }
            i += 1;
        }
        best
    }
}
impl<'a, K: Ord, V> Iterator for Iter<'a, K, V> {
    type Item = Entry<'a, K, V>;
    fn next(&mut self) -> Option<Self::Item> {
        if self.left == 0 { return None; }
        self.left -= 1;
        self.pick(true).map(|e| { self.lo = Some(&e.0); Entry { k: &e.0, v: &e.1 } })
    }
}
impl<'a, K: Ord, V> DoubleEndedIterator for Iter<'a, K, V> {
    fn next_back(&mut self) -> Option<Self::Item> {
        if self.left == 0 { return None; }
        self.left -= 1;
        self.pick(false).map(|e| { self.hi = Some(&e.0); Entry { k: &e.0, v: &e.1 } })
    }
}
impl<'a, K: Ord, V> IntoIterator for &'a SkipMap<K, V> {
    type Item = Entry<'a, K, V>;
    type IntoIter = Iter<'a, K, V>;
    fn into_iter(self) -> Iter<'a, K, V> { self.iter() }
}
impl<K, V> std::fmt::Debug for SkipMap<K, V> {
    fn fmt(&self, f: &mut std::fmt::Formatter<'_>) -> std::fmt::Result { f.write_str("SkipMap") }
}

//! Verification shim: sequential, heap-free executable specification of the subset of
//! crossbeam_skiplist::SkipMap used by open-coroutine-core. Slots are stable (entries never move),
//! iteration is in ascending key order, as for the real skip list.
use std::cell::UnsafeCell;
pub const MAXKEYS: usize = 3;
pub struct SkipMap<K, V> { pub slots: UnsafeCell<[Option<(K, V)>; MAXKEYS]> }
unsafe impl<K: Send, V: Send> Sync for SkipMap<K, V> {}
unsafe impl<K: Send, V: Send> Send for SkipMap<K, V> {}
pub mod map {
    pub struct Entry<'a, K, V> { pub(crate) k: &'a K, pub(crate) v: &'a V }
    impl<'a, K, V> Entry<'a, K, V> {
        pub fn key(&self) -> &'a K { self.k }
        pub fn value(&self) -> &'a V { self.v }
    }
    /// `lo`/`hi` are exclusive key bounds already yielded from the front/back.
    pub struct Iter<'a, K, V> { pub(crate) m: &'a super::SkipMap<K, V>, pub(crate) lo: Option<&'a K>, pub(crate) hi: Option<&'a K> }
}
use map::{Entry, Iter};
impl<K: Ord, V> SkipMap<K, V> {
    pub fn new() -> Self { SkipMap { slots: UnsafeCell::new([None, None, None]) } }
    #[allow(clippy::mut_from_ref)]
    pub fn raw(&self) -> &mut [Option<(K, V)>; MAXKEYS] { unsafe { &mut *self.slots.get() } }
    pub fn get_or_insert_with<F: FnOnce() -> V>(&self, key: K, f: F) -> Entry<'_, K, V> {
        let s = self.raw();
        let mut free = MAXKEYS;
        let mut i = 0;
        while i < MAXKEYS {
            match &s[i] { Some((k, _)) => { if *k == key { let e = s[i].as_ref().unwrap(); return Entry { k: &e.0, v: &e.1 }; } } None => { if free == MAXKEYS { free = i; } } }
            i += 1;
        }
        assert!(free < MAXKEYS, "shim bound: at most MAXKEYS distinct priorities");
        s[free] = Some((key, f()));
        let e = s[free].as_ref().unwrap();
        Entry { k: &e.0, v: &e.1 }
    }
    pub fn iter(&self) -> Iter<'_, K, V> { Iter { m: self, lo: None, hi: None } }
}
impl<'a, K: Ord, V> Iterator for Iter<'a, K, V> {
    type Item = Entry<'a, K, V>;
    fn next(&mut self) -> Option<Self::Item> {
        let s = unsafe { &*self.m.slots.get() };
        let mut best: Option<&'a (K, V)> = None;
        let mut i = 0;
        while i < MAXKEYS {
            if let Some(e) = &s[i] {
                let ok_lo = match self.lo { Some(l) => e.0 > *l, None => true };
                let ok_hi = match self.hi { Some(h) => e.0 < *h, None => true };
                if ok_lo && ok_hi { match best { Some(b) => { if e.0 < b.0 { best = Some(e); } } None => best = Some(e) } }
            }
            i += 1;
        }
        best.map(|e| { self.lo = Some(&e.0); Entry { k: &e.0, v: &e.1 } })
    }
}
impl<'a, K: Ord, V> DoubleEndedIterator for Iter<'a, K, V> {
    fn next_back(&mut self) -> Option<Self::Item> {
        let s = unsafe { &*self.m.slots.get() };
        let mut best: Option<&'a (K, V)> = None;
        let mut i = 0;
        while i < MAXKEYS {
            if let Some(e) = &s[i] {
                let ok_lo = match self.lo { Some(l) => e.0 > *l, None => true };
                let ok_hi = match self.hi { Some(h) => e.0 < *h, None => true };
                if ok_lo && ok_hi { match best { Some(b) => { if e.0 > b.0 { best = Some(e); } } None => best = Some(e) } }
            }
            i += 1;
        }
        best.map(|e| { self.hi = Some(&e.0); Entry { k: &e.0, v: &e.1 } })
    }
}
impl<'a, K: Ord, V> IntoIterator for &'a SkipMap<K, V> {
    type Item = Entry<'a, K, V>;
    type IntoIter = Iter<'a, K, V>;
    fn into_iter(self) -> Iter<'a, K, V> { self.iter() }
}
impl<K, V> std::fmt::Debug for SkipMap<K, V> {
    fn fmt(&self, f: &mut std::fmt::Formatter<'_>) -> std::fmt::Result { f.write_str("SkipMap") }
}

//! Verification shim: sequential, heap-free executable specification of the subset of
//! dashmap::{DashMap, DashSet} used by open-coroutine-core (at most MAXE live entries).
//!
//! Contract modelled:
//!  * map semantics of insert / get / get_mut / remove / contains_key / is_empty / iteration;
//!  * the LOCKING precondition of the real crate: `insert`, `remove`, `get_mut` take a write lock on the key's
//!    shard, `get` / `contains_key` / iteration take a read lock; calling a write operation on a key while a
//!    `Ref`, `RefMut` or iterator item INTO THE SAME SHARD is alive on this thread deadlocks ("may deadlock if
//!    called when holding any sort of reference into the map"). An iterator item's key is by construction in
//!    the shard the iterator holds. The shim has one shard; it counts live references and reports a write
//!    while one is alive as a violated dependency contract (`SHIM-CONTRACT:` assertions are attributed to the
//!    calling crate function by the driver).
use std::cell::{Cell, UnsafeCell};
pub const MAXE: usize = 3;
pub struct DashMap<K, V> { pub slots: UnsafeCell<[Option<(K, V)>; MAXE]>, pub live_refs: Cell<usize> }
unsafe impl<K: Send, V: Send> Send for DashMap<K, V> {}
unsafe impl<K: Send, V: Send> Sync for DashMap<K, V> {}
impl<K, V> Default for DashMap<K, V> { fn default() -> Self { DashMap { slots: UnsafeCell::new([None, None, None]), live_refs: Cell::new(0) } } }
impl<K, V> std::fmt::Debug for DashMap<K, V> { fn fmt(&self, f: &mut std::fmt::Formatter<'_>) -> std::fmt::Result { f.write_str("DashMap") } }
pub mod mapref {
    pub mod one {
        use std::cell::Cell;
        pub struct Ref<'a, K, V> { pub(crate) e: &'a (K, V), pub(crate) live: &'a Cell<usize> }
        impl<'a, K, V> Ref<'a, K, V> { pub fn key(&self) -> &K { &self.e.0 } pub fn value(&self) -> &V { &self.e.1 } }
        impl<'a, K, V> std::ops::Deref for Ref<'a, K, V> { type Target = V; fn deref(&self) -> &V { &self.e.1 } }
        impl<'a, K, V> Drop for Ref<'a, K, V> { fn drop(&mut self) { self.live.set(self.live.get() - 1); } }
        pub struct RefMut<'a, K, V> { pub(crate) e: &'a mut (K, V), pub(crate) live: &'a Cell<usize> }
        impl<'a, K, V> std::ops::Deref for RefMut<'a, K, V> { type Target = V; fn deref(&self) -> &V { &self.e.1 } }
        impl<'a, K, V> std::ops::DerefMut for RefMut<'a, K, V> { fn deref_mut(&mut self) -> &mut V { &mut self.e.1 } }
        impl<'a, K, V> Drop for RefMut<'a, K, V> { fn drop(&mut self) { self.live.set(self.live.get() - 1); } }
    }
}
use mapref::one::{Ref, RefMut};
impl<K: Eq, V> DashMap<K, V> {
    pub fn new() -> Self { Self::default() }
    #[allow(clippy::mut_from_ref)]
    fn raw(&self) -> &mut [Option<(K, V)>; MAXE] { unsafe { &mut *self.slots.get() } }
    fn find<Q: ?Sized>(&self, key: &Q) -> usize where K: std::borrow::Borrow<Q>, Q: Eq {
        let s = self.raw(); let mut i = 0;
        while i < MAXE { if let Some((k, _)) = &s[i] { if k.borrow() == key { return i; } } i += 1; }
        MAXE
    }
    fn write_lock(&self) {
        #[cfg(kani)]
        kani::assert(self.live_refs.get() == 0, "SHIM-CONTRACT: dashmap write operation while a reference into the map is alive (deadlock in the real crate)");
        #[cfg(not(kani))]
        assert!(self.live_refs.get() == 0, "SHIM-CONTRACT: dashmap write operation while a reference into the map is alive (deadlock in the real crate)");
    }
    pub fn insert(&self, key: K, value: V) -> Option<V> {
        self.write_lock();
        let i = self.find(&key); let s = self.raw();
        if i < MAXE { let old = s[i].take(); s[i] = Some((key, value)); return old.map(|e| e.1); }
        let mut j = 0; while j < MAXE { if s[j].is_none() { s[j] = Some((key, value)); return None; } j += 1; }
        panic!("shim bound: DashMap holds at most MAXE entries")
    }
    pub fn get<Q: ?Sized>(&self, key: &Q) -> Option<Ref<'_, K, V>> where K: std::borrow::Borrow<Q>, Q: Eq {
        let i = self.find(key);
        if i < MAXE { self.raw()[i].as_ref().map(|e| { self.live_refs.set(self.live_refs.get() + 1); Ref { e, live: &self.live_refs } }) } else { None }
    }
    pub fn get_mut<Q: ?Sized>(&self, key: &Q) -> Option<RefMut<'_, K, V>> where K: std::borrow::Borrow<Q>, Q: Eq {
        self.write_lock();
        let i = self.find(key);
        if i < MAXE { self.raw()[i].as_mut().map(|e| { self.live_refs.set(self.live_refs.get() + 1); RefMut { e, live: &self.live_refs } }) } else { None }
    }
    pub fn remove<Q: ?Sized>(&self, key: &Q) -> Option<(K, V)> where K: std::borrow::Borrow<Q>, Q: Eq {
        self.write_lock();
        let i = self.find(key); if i < MAXE { self.raw()[i].take() } else { None }
    }
    pub fn iter(&self) -> Iter<'_, K, V> { Iter { m: self, i: 0, locked: false } }
    pub fn contains_key<Q: ?Sized>(&self, key: &Q) -> bool where K: std::borrow::Borrow<Q>, Q: Eq { self.find(key) < MAXE }
    pub fn is_empty(&self) -> bool { let s = self.raw(); let mut i = 0; while i < MAXE { if s[i].is_some() { return false; } i += 1; } true }
}
pub struct DashSet<K> { m: DashMap<K, ()> }
impl<K> Default for DashSet<K> { fn default() -> Self { DashSet { m: DashMap::default() } } }
impl<K> std::fmt::Debug for DashSet<K> { fn fmt(&self, f: &mut std::fmt::Formatter<'_>) -> std::fmt::Result { f.write_str("DashSet") } }
impl<K: Eq> DashSet<K> {
    pub fn new() -> Self { Self::default() }
    pub fn insert(&self, key: K) -> bool { self.m.insert(key, ()).is_none() }
    pub fn contains<Q: ?Sized>(&self, key: &Q) -> bool where K: std::borrow::Borrow<Q>, Q: Eq { self.m.contains_key(key) }
    pub fn remove<Q: ?Sized>(&self, key: &Q) -> Option<K> where K: std::borrow::Borrow<Q>, Q: Eq { self.m.remove(key).map(|e| e.0) }
    pub fn is_empty(&self) -> bool { self.m.is_empty() }
}
/// Borrowing iterator: holds the (single) shard's read lock from the first item until it is dropped.
pub struct Iter<'a, K, V> { m: &'a DashMap<K, V>, i: usize, locked: bool }
impl<'a, K, V> Iterator for Iter<'a, K, V> {
    type Item = Ref<'a, K, V>;
    fn next(&mut self) -> Option<Self::Item> {
        let s = unsafe { &*self.m.slots.get() };
        while self.i < MAXE {
            let j = self.i; self.i += 1;
            if let Some(e) = &s[j] {
                if !self.locked { self.locked = true; self.m.live_refs.set(self.m.live_refs.get() + 1); }
                self.m.live_refs.set(self.m.live_refs.get() + 1);
                return Some(Ref { e, live: &self.m.live_refs });
            }
        }
        if self.locked { self.locked = false; self.m.live_refs.set(self.m.live_refs.get() - 1); }
        None
    }
}
impl<'a, K, V> Drop for Iter<'a, K, V> { fn drop(&mut self) { if self.locked { self.m.live_refs.set(self.m.live_refs.get() - 1); } } }
impl<'a, K: Eq, V> IntoIterator for &'a DashMap<K, V> { type Item = Ref<'a, K, V>; type IntoIter = Iter<'a, K, V>; fn into_iter(self) -> Iter<'a, K, V> { Iter { m: self, i: 0, locked: false } } }
pub struct OwningIter<K, V> { slots: [Option<(K, V)>; MAXE], i: usize }
impl<K, V> Iterator for OwningIter<K, V> {
    type Item = (K, V);
    fn next(&mut self) -> Option<(K, V)> {
        while self.i < MAXE { let j = self.i; self.i += 1; if let Some(e) = self.slots[j].take() { return Some(e); } }
        None
    }
}
impl<K: Eq, V> IntoIterator for DashMap<K, V> {
    type Item = (K, V);
    type IntoIter = OwningIter<K, V>;
    fn into_iter(self) -> OwningIter<K, V> { OwningIter { slots: self.slots.into_inner(), i: 0 } }
}

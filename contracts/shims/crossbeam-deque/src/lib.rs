//! Verification shim: sequential, heap-free executable specification of crossbeam_deque::Injector (subset used).
use std::cell::UnsafeCell;
pub const MAXQ: usize = 6;
pub enum Steal<T> { Empty, Success(T), Retry }
pub struct Inner<T> { pub buf: [Option<T>; MAXQ], pub head: usize, pub len: usize }
pub struct Injector<T> { pub q: UnsafeCell<Inner<T>> }
unsafe impl<T: Send> Send for Injector<T> {}
unsafe impl<T: Send> Sync for Injector<T> {}
impl<T> std::fmt::Debug for Injector<T> { fn fmt(&self, f: &mut std::fmt::Formatter<'_>) -> std::fmt::Result { f.write_str("Injector") } }
impl<T> Injector<T> {
    pub fn new() -> Self { Injector { q: UnsafeCell::new(Inner { buf: [None, None, None, None, None, None], head: 0, len: 0 }) } }
    #[allow(clippy::mut_from_ref)]
    pub fn inner(&self) -> &mut Inner<T> { unsafe { &mut *self.q.get() } }
    pub fn push(&self, item: T) {
        let i = self.inner();
        assert!(i.len < MAXQ, "shim bound: injector holds at most MAXQ items");
        let pos = (i.head + i.len) % MAXQ; i.buf[pos] = Some(item); i.len += 1;
    }
    pub fn steal(&self) -> Steal<T> {
        let i = self.inner();
        if i.len == 0 { return Steal::Empty; }
        let it = i.buf[i.head].take(); i.head = (i.head + 1) % MAXQ; i.len -= 1;
        match it { Some(x) => Steal::Success(x), None => Steal::Empty }
    }
}

//! Verification shim: the machine has two CPUs.
pub fn get() -> usize { 2 }
pub fn get_physical() -> usize { 2 }

//! Verification shim: sequential contract of once_cell::sync::{OnceCell, Lazy} (initialise at most once).
pub mod sync {
    use std::cell::UnsafeCell;
    pub struct OnceCell<T> { v: UnsafeCell<Option<T>> }
    unsafe impl<T: Send + Sync> Sync for OnceCell<T> {}
    unsafe impl<T: Send> Send for OnceCell<T> {}
    impl<T> OnceCell<T> {
        pub const fn new() -> Self { OnceCell { v: UnsafeCell::new(None) } }
        pub fn get(&self) -> Option<&T> { unsafe { (&*self.v.get()).as_ref() } }
        pub fn get_or_init<F: FnOnce() -> T>(&self, f: F) -> &T {
            unsafe {
                if (&*self.v.get()).is_none() { let x = f(); *self.v.get() = Some(x); }
                (&*self.v.get()).as_ref().unwrap()
            }
        }
        pub fn set(&self, value: T) -> Result<(), T> {
            unsafe { if (&*self.v.get()).is_some() { Err(value) } else { *self.v.get() = Some(value); Ok(()) } }
        }
    }
    impl<T> std::fmt::Debug for OnceCell<T> { fn fmt(&self, f: &mut std::fmt::Formatter<'_>) -> std::fmt::Result { f.write_str("OnceCell") } }
    /// The value lives in a leaked heap box (not inside the static): CBMC mishandled writes to an
    /// interior-mutable value stored by value inside an immutable static (measured), and the real
    /// once_cell also never moves the value after initialisation.
    pub struct Lazy<T, F = fn() -> T> { ptr: UnsafeCell<*const T>, init: UnsafeCell<Option<F>> }
    unsafe impl<T: Send + Sync, F: Send> Sync for Lazy<T, F> {}
    impl<T, F> Lazy<T, F> {
        pub const fn new(f: F) -> Self { Lazy { ptr: UnsafeCell::new(std::ptr::null()), init: UnsafeCell::new(Some(f)) } }
    }
    impl<T, F: FnOnce() -> T> Lazy<T, F> {
        pub fn force(this: &Lazy<T, F>) -> &T {
            unsafe {
                if (*this.ptr.get()).is_null() {
                    let f = (&mut *this.init.get()).take().expect("Lazy instance has previously been poisoned");
                    *this.ptr.get() = Box::leak(Box::new(f())) as *const T;
                }
                &**this.ptr.get()
            }
        }
    }
    impl<T, F: FnOnce() -> T> std::ops::Deref for Lazy<T, F> { type Target = T; fn deref(&self) -> &T { Lazy::force(self) } }
    impl<T, F> std::fmt::Debug for Lazy<T, F> { fn fmt(&self, f: &mut std::fmt::Formatter<'_>) -> std::fmt::Result { f.write_str("Lazy") } }
}

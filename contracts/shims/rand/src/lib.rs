//! Verification shim for rand: every draw is an unconstrained choice made by the harness.
pub static mut NEXT_CHOICE: usize = 0;
pub struct ThreadRng;
pub fn rng() -> ThreadRng { ThreadRng }
pub trait RngExt {
    fn random_range(&mut self, range: std::ops::Range<usize>) -> usize;
}
impl RngExt for ThreadRng {
    fn random_range(&mut self, range: std::ops::Range<usize>) -> usize {
        assert!(range.start < range.end);
        let c = unsafe { NEXT_CHOICE };
        range.start + c % (range.end - range.start)
    }
}
pub trait FromChoice { fn from_choice(c: usize) -> Self; }
impl FromChoice for u128 { fn from_choice(c: usize) -> Self { c as u128 } }
impl FromChoice for u64 { fn from_choice(c: usize) -> Self { c as u64 } }
impl FromChoice for u32 { fn from_choice(c: usize) -> Self { c as u32 } }
impl FromChoice for u16 { fn from_choice(c: usize) -> Self { c as u16 } }
pub fn random<T: FromChoice>() -> T { T::from_choice(unsafe { NEXT_CHOICE }) }

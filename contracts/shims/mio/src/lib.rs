//! Verification shim: the contract of mio::Poll over epoll as used by open-coroutine-core.
//! * register: EEXIST if the fd is registered; reregister/deregister: ENOENT if it is not;
//! * an event for a source carries the Token and the interest of its latest (re)registration;
//! * which registered sources fire is the harness's choice (`FIRE` bitmask); a poll may fail (`POLL_FAIL_NEXT`).
use std::cell::UnsafeCell;
use std::io;
use std::time::Duration;
pub const MAXREG: usize = 2;
#[derive(Clone, Copy, PartialEq, Eq, Debug)]
pub struct Token(pub usize);
#[derive(Clone, Copy, PartialEq, Eq, Debug)]
pub struct Interest(u8);
impl Interest {
    pub const READABLE: Interest = Interest(1);
    pub const WRITABLE: Interest = Interest(2);
    pub const fn add(self, other: Interest) -> Interest { Interest(self.0 | other.0) }
    pub const fn is_readable(self) -> bool { self.0 & 1 != 0 }
    pub const fn is_writable(self) -> bool { self.0 & 2 != 0 }
    pub const fn bits(self) -> u8 { self.0 }
}
pub mod unix { pub struct SourceFd<'a>(pub &'a std::os::raw::c_int); }
pub mod event {
    #[derive(Clone, Copy, Debug)]
    pub struct Event { pub(crate) token: super::Token, pub(crate) bits: u8 }
    impl Event {
        pub fn token(&self) -> super::Token { self.token }
        pub fn is_readable(&self) -> bool { self.bits & 1 != 0 }
        pub fn is_writable(&self) -> bool { self.bits & 2 != 0 }
    }
}
#[derive(Clone, Copy)]
pub struct Reg { pub fd: i32, pub token: Token, pub interest: Interest }
pub struct Registry { pub table: UnsafeCell<[Option<Reg>; MAXREG]> }
/// forced failure of the next OS call (0 = none): lets a harness explore EPERM/ENOMEM paths
pub static mut FAIL_NEXT: i32 = 0;
/// while non-zero every register/reregister/deregister fails with this errno and changes nothing
pub static mut FAIL_ALL: i32 = 0;
/// bitmask of table slots that fire on the next poll
pub static mut FIRE: u8 = 0;
/// errno the next poll fails with (0 = none): epoll_wait can fail (EINTR on any handled signal; mio does not retry)
pub static mut POLL_FAIL_NEXT: i32 = 0;
impl Registry {
    #[allow(clippy::mut_from_ref)]
    pub fn raw(&self) -> &mut [Option<Reg>; MAXREG] { unsafe { &mut *self.table.get() } }
    fn find(&self, fd: i32) -> usize { let t = self.raw(); let mut i = 0; while i < MAXREG { if let Some(r) = &t[i] { if r.fd == fd { return i; } } i += 1; } MAXREG }
    fn forced() -> Option<io::Error> { unsafe { if FAIL_ALL != 0 { return Some(io::Error::from_raw_os_error(FAIL_ALL)); } if FAIL_NEXT != 0 { let e = FAIL_NEXT; FAIL_NEXT = 0; Some(io::Error::from_raw_os_error(e)) } else { None } } }
    pub fn register(&self, s: &mut unix::SourceFd<'_>, token: Token, interest: Interest) -> io::Result<()> {
        if let Some(e) = Self::forced() { return Err(e); }
        if self.find(*s.0) < MAXREG { return Err(io::Error::from_raw_os_error(17)); }
        let t = self.raw(); let mut i = 0;
        while i < MAXREG { if t[i].is_none() { t[i] = Some(Reg { fd: *s.0, token, interest }); return Ok(()); } i += 1; }
        panic!("shim bound: at most MAXREG registrations")
    }
    pub fn reregister(&self, s: &mut unix::SourceFd<'_>, token: Token, interest: Interest) -> io::Result<()> {
        if let Some(e) = Self::forced() { return Err(e); }
        let i = self.find(*s.0); if i == MAXREG { return Err(io::Error::from_raw_os_error(2)); }
        self.raw()[i] = Some(Reg { fd: *s.0, token, interest }); Ok(())
    }
    pub fn deregister(&self, s: &mut unix::SourceFd<'_>) -> io::Result<()> {
        if let Some(e) = Self::forced() { return Err(e); }
        let i = self.find(*s.0); if i == MAXREG { return Err(io::Error::from_raw_os_error(2)); }
        self.raw()[i] = None; Ok(())
    }
}
pub struct Poll { registry: Registry }
impl Poll {
    pub fn new() -> io::Result<Poll> { Ok(Poll { registry: Registry { table: UnsafeCell::new([None, None]) } }) }
    pub fn registry(&self) -> &Registry { &self.registry }
    pub fn poll(&mut self, events: &mut Events, _timeout: Option<Duration>) -> io::Result<()> {
        events.n = 0;
        unsafe { if POLL_FAIL_NEXT != 0 { let e = POLL_FAIL_NEXT; POLL_FAIL_NEXT = 0; return Err(io::Error::from_raw_os_error(e)); } }
        let t = self.registry.raw(); let mut i = 0;
        while i < MAXREG {
            if unsafe { FIRE } & (1 << i) != 0 { if let Some(r) = &t[i] { events.buf[events.n] = event::Event { token: r.token, bits: r.interest.bits() }; events.n += 1; } }
            i += 1;
        }
        Ok(())
    }
}
pub struct Events { pub(crate) buf: [event::Event; MAXREG], pub(crate) n: usize }
impl Events {
    pub fn with_capacity(_c: usize) -> Events { Events { buf: [event::Event { token: Token(0), bits: 0 }; MAXREG], n: 0 } }
    pub fn iter(&self) -> std::slice::Iter<'_, event::Event> { self.buf[..self.n].iter() }
}
impl std::fmt::Debug for Events { fn fmt(&self, f: &mut std::fmt::Formatter<'_>) -> std::fmt::Result { f.write_str("Events") } }

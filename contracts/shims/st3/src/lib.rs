//! Verification shim: sequential, heap-free executable specification of st3::fifo (subset used).
pub mod fifo {
    use std::cell::UnsafeCell;
    pub const MAXCAP: usize = 4;
    #[derive(Debug)]
    pub enum StealError { Empty, Busy }
    pub struct Inner<T> { pub buf: [Option<T>; MAXCAP], pub head: usize, pub len: usize }
    pub struct Worker<T> { pub q: UnsafeCell<Inner<T>>, pub cap: usize }
    unsafe impl<T: Send> Send for Worker<T> {}
    unsafe impl<T: Send> Sync for Worker<T> {}
    pub struct Stealer<'a, T> { w: &'a Worker<T> }
    impl<T> std::fmt::Debug for Worker<T> { fn fmt(&self, f: &mut std::fmt::Formatter<'_>) -> std::fmt::Result { f.write_str("Worker") } }
    impl<T> Worker<T> {
        pub fn new(min_capacity: usize) -> Self {
            let cap = min_capacity.next_power_of_two();
            assert!(cap <= MAXCAP);
            Worker { q: UnsafeCell::new(Inner { buf: [None, None, None, None], head: 0, len: 0 }), cap }
        }
        #[allow(clippy::mut_from_ref)]
        pub fn inner(&self) -> &mut Inner<T> { unsafe { &mut *self.q.get() } }
        pub fn stealer(&self) -> Stealer<'_, T> { Stealer { w: self } }
        pub fn capacity(&self) -> usize { self.cap }
        pub fn spare_capacity(&self) -> usize { self.cap - self.inner().len }
        pub fn is_empty(&self) -> bool { self.inner().len == 0 }
        pub fn push(&self, item: T) -> Result<(), T> {
            let i = self.inner();
            if i.len >= self.cap { return Err(item); }
            let pos = (i.head + i.len) % MAXCAP;
            i.buf[pos] = Some(item); i.len += 1; Ok(())
        }
        pub fn pop(&self) -> Option<T> {
            let i = self.inner();
            if i.len == 0 { return None; }
            let it = i.buf[i.head].take(); i.head = (i.head + 1) % MAXCAP; i.len -= 1; it
        }
    }
    impl<'a, T> Stealer<'a, T> {
        pub fn steal<C: FnMut(usize) -> usize>(&self, dest: &Worker<T>, mut count_fn: C) -> Result<usize, StealError> {
            let avail = self.w.inner().len;
            let free = dest.spare_capacity();
            let n = count_fn(avail).min(avail).min(free);
            if n == 0 { return Err(StealError::Empty); }
            let mut k = 0;
            while k < n { let it = self.w.pop().unwrap(); let _ = dest.push(it); k += 1; }
            Ok(n)
        }
    }
}

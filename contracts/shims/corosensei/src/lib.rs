//! Verification shim: contract of corosensei as seen by open-coroutine-core.
//! `resume` does not run the body. It calls the harness hook (which performs one body step through
//! the public API of the owning coroutine) and returns the outcome the harness deposited.
use std::marker::PhantomData;
use std::num::NonZeroUsize;

pub mod stack {
    use std::num::NonZeroUsize;
    pub type StackPointer = NonZeroUsize;
    pub unsafe trait Stack { fn base(&self) -> StackPointer; fn limit(&self) -> StackPointer; }
    pub struct DefaultStack { pub base: usize, pub len: usize }
    pub static mut NEXT_BASE: usize = 0x1000_0000;
    impl DefaultStack {
        pub fn new(size: usize) -> std::io::Result<Self> {
            let len = (size.max(4096) + 2 * 4096 - 1) & !(4096 - 1);
            let base = unsafe { NEXT_BASE += 0x100_0000; NEXT_BASE };
            Ok(DefaultStack { base, len })
        }
    }
    unsafe impl Stack for DefaultStack {
        fn base(&self) -> StackPointer { NonZeroUsize::new(self.base).unwrap() }
        fn limit(&self) -> StackPointer { NonZeroUsize::new(self.base - self.len).unwrap() }
    }
}
pub mod trap {
    use std::marker::PhantomData;
    #[derive(Clone, Copy, Debug)]
    pub struct TrapHandlerRegs { pub rip: u64, pub rsp: u64, pub rbp: u64, pub rdi: u64, pub rsi: u64 }
    /// `base`/`limit`: the stack the coroutine was created with (corosensei knows no other)
    pub struct CoroutineTrapHandler<Return> { pub(crate) p: PhantomData<Return>, pub(crate) base: usize, pub(crate) limit: usize }
    /// the value the trap closure produced, byte-copied (the harness knows the coroutine's return type)
    pub static mut TRAP_RESULT: [u8; 32] = [0xA5; 32];
    pub static mut TRAP_SETUPS: usize = 0x7501;
    impl<Return> CoroutineTrapHandler<Return> {
        /// contract: the closure is what the coroutine will "return" once the faulting thread has been redirected;
        /// the shim evaluates it at once and keeps the outcome for the harness
        pub unsafe fn setup_trap_handler<F: FnOnce() -> Return + 'static>(&self, f: F) -> TrapHandlerRegs {
            let r = f();
            let n = std::mem::size_of::<Return>();
            assert!(n <= 32);
            std::ptr::copy_nonoverlapping((&raw const r).cast::<u8>(), (&raw mut TRAP_RESULT).cast::<u8>(), n);
            std::mem::forget(r);
            TRAP_SETUPS += 1;
            TrapHandlerRegs { rip: 1, rsp: 1, rbp: 1, rdi: 1, rsi: 1 }
        }
        /// corosensei's own check: the initial stack only, guard page included
        pub fn stack_ptr_in_bounds(&self, ptr: usize) -> bool { self.limit <= ptr && ptr < self.base }
    }
}
pub enum CoroutineResult<Yield, Return> { Yield(Yield), Return(Return) }
pub struct Yielder<Input, Yield> { p: PhantomData<(Input, Yield)> }
impl<Input, Yield> Yielder<Input, Yield> {
    pub fn suspend(&self, _val: Yield) -> Input { unreachable!("shim: bodies are never executed") }
}
/// Set by the harness: performs the side effects of one body step.
pub static mut RESUME_HOOK: Option<fn()> = None;
pub struct Coroutine<Input, Yield, Return, Stack: stack::Stack = stack::DefaultStack> {
    pub stack: Stack,
    pub started: bool,
    pub done: bool,
    pub resumes: usize,
    /// deposited by the harness before each resume
    pub next: Option<CoroutineResult<Yield, Return>>,
    p: PhantomData<Input>,
}
impl<Input, Yield, Return, Stack: stack::Stack> Coroutine<Input, Yield, Return, Stack> {
    pub fn with_stack<F>(stack: Stack, func: F) -> Self
    where F: FnOnce(&Yielder<Input, Yield>, Input) -> Return + 'static {
        std::mem::forget(func);
        Coroutine { stack, started: false, done: false, resumes: 0, next: None, p: PhantomData }
    }
    pub fn resume(&mut self, _val: Input) -> CoroutineResult<Yield, Return> {
        assert!(!self.done, "shim: resume after completion");
        self.started = true;
        self.resumes += 1;
        if let Some(h) = unsafe { RESUME_HOOK } { h(); }
        let r = self.next.take().expect("shim: harness must deposit an outcome");
        if let CoroutineResult::Return(_) = &r { self.done = true; }
        r
    }
    pub fn started(&self) -> bool { self.started }
    pub fn done(&self) -> bool { self.done }
    pub unsafe fn force_reset(&mut self) { self.started = false; }
    pub fn trap_handler(&self) -> trap::CoroutineTrapHandler<Return> { trap::CoroutineTrapHandler { p: PhantomData, base: self.stack.base().get(), limit: self.stack.limit().get() } }
}
pub fn on_stack<F: FnOnce() -> R, R>(_stack: impl stack::Stack, f: F) -> R { f() }
#[allow(dead_code)]
fn _nz(_: NonZeroUsize) {}

//! Native replay for C04 / C06 on the real ordered work-steal queue (real crossbeam / st3 / rand), public API only.
//! Each scenario runs in a forked child with an alarm: the C04 defect is a call that never returns.
use super::*;

fn in_child(f: fn() -> i32) -> i32 {
    unsafe {
        let pid = libc::fork();
        if pid == 0 { libc::alarm(5); let c = f(); libc::_exit(c); }
        let mut st = 0; libc::waitpid(pid, &mut st, 0);
        if libc::WIFEXITED(st) { libc::WEXITSTATUS(st) } else { 1000 + libc::WTERMSIG(st) }
    }
}

/// capacity 2, two local queues: A pushes two items, B (idle) takes both by stealing; A's own counter still says 2
fn drained_by_a_sibling<'q>(q: &'q OrderedWorkStealQueue<u32>) -> (OrderedLocalQueue<'q, u32>, OrderedLocalQueue<'q, u32>) {
    let a = q.local_queue();
    let b = q.local_queue();
    a.push_with_priority(1, 10);
    a.push_with_priority(1, 11);
    assert_eq!(b.pop(), Some(10));
    assert_eq!(b.pop(), Some(11));
    (a, b)
}

/// C04: the next push on A must return
fn scenario_push_after_being_drained() -> i32 {
    let q = OrderedWorkStealQueue::new(2, 2);
    let (a, b) = drained_by_a_sibling(&q);
    a.push_with_priority(1, 12); // loops for ever in push_to_global on the tree as found
    let got = a.pop().or_else(|| b.pop());
    std::mem::forget(a); std::mem::forget(b); std::mem::forget(q);
    if got == Some(12) { 0 } else { 3 }
}

/// C06: A is idle, B holds work: A's pop must obtain it instead of reporting empty
fn scenario_idle_pop_with_stale_counter() -> i32 {
    let q = OrderedWorkStealQueue::new(2, 2);
    let (a, b) = drained_by_a_sibling(&q);
    b.push_with_priority(1, 20);
    let got = a.pop();
    println!("VERIF-REPLAY idle pop returned {got:?} while the sibling held one item");
    std::mem::forget(a); std::mem::forget(b); std::mem::forget(q);
    if got == Some(20) { 0 } else { 2 }
}

fn report(name: &str, c: i32) {
    println!("VERIF-REPLAY {name}: child status {c}");
    if c == 0 { println!("VERIF-REPLAY-NOT-REPRODUCED"); }
    else if c == 2 || c == 1014 { println!("VERIF-REPLAY-REPRODUCED {name} (status {c}{})", if c == 1014 { ": the call had not returned when the 5 s alarm fired" } else { "" }); }
}
#[test] fn q_native_push_after_being_drained() { report("C04 push on a queue drained by a sibling", in_child(scenario_push_after_being_drained)); }
#[test] fn q_native_idle_pop_with_stale_counter() { report("C06 idle pop with a stale counter", in_child(scenario_idle_pop_with_stale_counter)); }

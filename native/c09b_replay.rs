//! Native replay for C09, second history (injected into coroutine::suspender, where the thread-local request stacks
//! are visible): a cancel (SIGVTALRM) lands after `until_with` has pushed its wake-up time and before the coroutine
//! has switched out. The state this produces - both requests pending at one yield - is written directly, because the
//! signal's timing cannot be forced. The first coroutine is reported Cancelled; the next coroutine's plain suspend
//! on the same thread must still report time 0.
use super::*;
use crate::common::constants::CoroutineState;
use crate::coroutine::Coroutine;

#[test]
fn c09_native_cancel_during_until() {
    let mut first: Coroutine<'static, (), (), ()> = Coroutine::new(Some("c09-first".into()), |s: &Suspender<(), ()>, ()| {
        // what until_with(.., ts) does before it yields
        TIMESTAMP.with(|q| unsafe { q.as_ptr().as_mut().unwrap().push_front(u64::MAX - 7) });
        // ... the cancel lands here: Suspender::cancel pushes its flag and yields
        s.cancel();
    }, None, None).unwrap();
    let r1 = first.resume().unwrap();
    let mut second: Coroutine<'static, (), (), ()> = Coroutine::new(Some("c09-second".into()), |s: &Suspender<(), ()>, ()| { s.suspend(); }, None, None).unwrap();
    let r2 = second.resume().unwrap();
    println!("VERIF-REPLAY first reported {r1:?}, second (plain suspend) reported {r2:?}");
    if r1 == CoroutineState::Cancelled && r2 == CoroutineState::Suspend((), 0) { println!("VERIF-REPLAY-NOT-REPRODUCED"); }
    else { println!("VERIF-REPLAY-REPRODUCED C09: the wake-up time of a cancelled yield reached the next coroutine's plain suspend"); }
    std::mem::forget(first); std::mem::forget(second);
}

//! Native replay for C12 (real dashmap): a stopped pool with one registered waiter runs its final clean-up in a
//! helper thread; the waiter must be settled and the clean-up must return.
use super::*;
use std::sync::atomic::{AtomicBool, Ordering as AO};

static DONE: AtomicBool = AtomicBool::new(false);

#[test]
fn c12_native_replay() {
    let arc = Arc::new((Mutex::new(true), Condvar::new()));
    let a2 = arc.clone();
    let _h = std::thread::spawn(move || {
        let mut pool = CoroutinePool::new("c12".to_string(), 128 * 1024, 0, 2, 0);
        pool.state.set(PoolState::Stopped);
        let _ = pool.waits.insert(42, a2);
        pool.do_clean();
        DONE.store(true, AO::SeqCst);
        std::mem::forget(pool);
    });
    let t0 = std::time::Instant::now();
    while !DONE.load(AO::SeqCst) && t0.elapsed() < Duration::from_secs(5) { std::thread::sleep(Duration::from_millis(20)); }
    if DONE.load(AO::SeqCst) {
        let released = !*arc.0.lock().unwrap();
        println!("VERIF-REPLAY clean-up returned, waiter released = {released}");
        if released { println!("VERIF-REPLAY-NOT-REPRODUCED"); } else { println!("VERIF-REPLAY-REPRODUCED C12: waiter not released"); }
    } else {
        println!("VERIF-REPLAY-REPRODUCED C12: do_clean with one registered waiter did not return within 5 s (removes from `waits` while iterating it: self-deadlock on the shard lock)");
    }
}

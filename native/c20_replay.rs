//! Native replay for C20: real mio/epoll, real socketpair, unmodified crate. Feeds the verifier's
//! counterexample token through the same Poller::do_register -> poll -> Event::get_token path.
use super::*;
use crate::net::selector::mio_adapter::Poller;
use mio::{Events, Interest as MioInterest};

#[test]
fn c20_native_replay() {
    let token: u64 = std::env::var("VERIF_CEX_TOKEN").unwrap().parse().unwrap();
    let mut fds = [0 as c_int; 2];
    assert_eq!(0, unsafe { libc::socketpair(libc::AF_UNIX, libc::SOCK_STREAM, 0, fds.as_mut_ptr()) });
    let poller = Poller::new().unwrap();
    Selector::do_register(&poller, fds[0], token, MioInterest::READABLE).unwrap();
    assert_eq!(1, unsafe { libc::write(fds[1], b"x".as_ptr().cast(), 1) });
    let mut events = Events::with_capacity(8);
    Selector::do_select(&poller, &mut events, Some(std::time::Duration::from_secs(2))).unwrap();
    let mut seen = 0;
    for e in events.iter() {
        seen += 1;
        let got = Event::get_token(e);
        println!("VERIF-REPLAY registered_token={token} decoded_token={got}");
        if got != token {
            println!("VERIF-REPLAY-REPRODUCED C20.decode_encode_identity: registered {token:#x}, event carries {got:#x}");
        } else {
            println!("VERIF-REPLAY-NOT-REPRODUCED");
        }
    }
    assert_eq!(seen, 1);
    unsafe { libc::close(fds[0]); libc::close(fds[1]); }
}

//! Native replay for C19 on real sockets through the crate's public hooked entry points
//! (`crate::syscall::setsockopt`, `crate::syscall::close`, `recv_time_limit`). A panic inside an
//! `extern "C"` function aborts the process, so the scenario runs in a forked child.
use super::*;

fn tv(s: i64, u: i64) -> libc::timeval { libc::timeval { tv_sec: s, tv_usec: u } }

fn in_child(f: fn() -> i32) -> i32 {
    unsafe {
        let pid = libc::fork();
        if pid == 0 { let c = f(); libc::_exit(c); }
        let mut st = 0; libc::waitpid(pid, &mut st, 0);
        if libc::WIFEXITED(st) { libc::WEXITSTATUS(st) } else { 1000 + libc::WTERMSIG(st) }
    }
}

fn scenario_set_twice() -> i32 {
    crate::net::EventLoops::init(&crate::config::Config::single());
    unsafe {
        let fd = libc::socket(libc::AF_INET, libc::SOCK_STREAM, 0);
        let _ = recv_time_limit(fd); // hooked I/O consults the limit first: fills the cache lazily
        let t = tv(2, 0);
        let r = crate::syscall::setsockopt(None, fd, libc::SOL_SOCKET, libc::SO_RCVTIMEO, std::ptr::addr_of!(t).cast(), 16);
        if r != 0 { return 3; }
        let t2 = tv(3, 0);
        let r = crate::syscall::setsockopt(None, fd, libc::SOL_SOCKET, libc::SO_RCVTIMEO, std::ptr::addr_of!(t2).cast(), 16);
        if r != 0 { return 3; }
        if recv_time_limit(fd) == 3_000_000_000 { 0 } else { 2 }
    }
}

fn scenario_close_reuse() -> i32 {
    crate::net::EventLoops::init(&crate::config::Config::single());
    unsafe {
        let fd = libc::socket(libc::AF_INET, libc::SOCK_STREAM, 0);
        let t = tv(2, 0);
        let r = libc::setsockopt(fd, libc::SOL_SOCKET, libc::SO_RCVTIMEO, std::ptr::addr_of!(t).cast(), 16);
        if r != 0 { return 3; }
        if recv_time_limit(fd) != 2_000_000_000 { return 4; }
        let _ = crate::syscall::close(None, fd);
        let fd2 = libc::socket(libc::AF_INET, libc::SOCK_STREAM, 0);
        if fd2 != fd { return 5; } // lowest free number is reused
        if recv_time_limit(fd2) == u64::MAX { 0 } else { 2 }
    }
}

#[test]
fn c19_native_set_twice() {
    let c = in_child(scenario_set_twice);
    println!("VERIF-REPLAY child status {c}");
    // the python side additionally requires the crate's own assertion text in the child's stderr for status 1006
    if c == 1006 { println!("VERIF-REPLAY-ABORTED C19: setsockopt after the cache was filled aborted the process (SIGABRT)"); }
    else if c == 2 { println!("VERIF-REPLAY-REPRODUCED C19: limit after the second setsockopt is not the option value"); }
    else if c == 0 { println!("VERIF-REPLAY-NOT-REPRODUCED"); }
}

#[test]
fn c19_native_close_reuse() {
    let c = in_child(scenario_close_reuse);
    println!("VERIF-REPLAY child status {c}");
    if c == 2 { println!("VERIF-REPLAY-REPRODUCED C19: reused descriptor number inherits the closed socket's limit (status {c})"); }
    else if c == 0 { println!("VERIF-REPLAY-NOT-REPRODUCED"); }
}

//! Native replay for C13 (real dependencies, public pool API): a task is cancelled while still queued, another
//! thread is already blocked in wait_task_result on it with a 3 s limit; the pool then runs its queue.
//! The waiter must be settled by that scheduling step, not by its own time-out.
use super::*;

struct P(*const CoroutinePool<'static>);
unsafe impl Send for P {}

#[test]
fn c13_native_cancelled_task_waiter() {
    let mut pool = CoroutinePool::new("c13".to_string(), 128 * 1024, 0, 1, 0);
    let id = pool.submit_task(Some("c13-task".to_string()), |_| Some(1), None, None).expect("submit");
    CoroutinePool::try_cancel_task(id);
    let p = P(&raw const pool as *const CoroutinePool<'static>);
    let h = std::thread::spawn(move || {
        let p = p;
        let t0 = std::time::Instant::now();
        let r = unsafe { (*p.0).wait_task_result(id, Duration::from_secs(3)) };
        (t0.elapsed(), r.is_ok())
    });
    std::thread::sleep(Duration::from_millis(200)); // let the waiter register
    let _ = pool.try_timed_schedule_task(Duration::from_millis(300));
    let (waited, settled) = h.join().expect("waiter thread");
    println!("VERIF-REPLAY waiter returned after {waited:?}, settled with a result = {settled}");
    if settled && waited < Duration::from_millis(2500) { println!("VERIF-REPLAY-NOT-REPRODUCED"); }
    else { println!("VERIF-REPLAY-REPRODUCED C13: the waiter of a task cancelled before it started was left blocked until its own 3 s time-out"); }
    std::mem::forget(pool);
}

//! Native replay for C14: real event loop, real dependencies, plain-thread caller, the crate's public hooked
//! entry points (`crate::syscall::{select, poll, nanosleep, usleep, sleep}`). The verifier's counterexample is
//! passed in by the driver: VERIF_C14_KIND = select_time | select_invalid | poll_time | nanosleep_invalid |
//! nanosleep_time | usleep_time | sleep_time, VERIF_C14_A / VERIF_C14_B = the argument values.
//!
//! Timing verdicts are one-sided on purpose. "Returned before the requested time" is definite (the monotonic clock
//! cannot lie in that direction). "Returned too late" is definite only when the excess is far beyond scheduling
//! noise (SLACK); anything in between prints VERIF-REPLAY-UNDECIDED and never overrules the verifier.
//! A panic inside an `extern "C"` function aborts the process, so every scenario runs in a forked child with an
//! alarm as the upper limit.
use super::*;

const SLACK_NS: u128 = 150_000_000; // 150 ms + the requested time again
const ALARM_S: u32 = 4;

fn arg(name: &str) -> i64 { std::env::var(name).ok().and_then(|s| s.parse().ok()).unwrap_or(0) }

/// exit status of the child: 0 = within [requested, requested + slack]; 2 = early; 3 = late; 4 = wrong return value;
/// 5 = invalid argument accepted / wrong errno; 1000 + signal when killed (1006 = abort, 1014 = alarm)
fn in_child(f: fn() -> i32) -> i32 {
    unsafe {
        let pid = libc::fork();
        if pid == 0 { let _ = libc::alarm(ALARM_S); let c = f(); libc::_exit(c); }
        let mut st = 0; let _ = libc::waitpid(pid, &mut st, 0);
        if libc::WIFEXITED(st) { libc::WEXITSTATUS(st) } else { 1000 + libc::WTERMSIG(st) }
    }
}

fn judge(requested_ns: u128, ret_ok: bool, t0: std::time::Instant) -> i32 {
    let e = t0.elapsed().as_nanos();
    eprintln!("VERIF-REPLAY-CHILD requested_ns={requested_ns} elapsed_ns={e} ret_ok={ret_ok}");
    if !ret_ok { 4 } else if e < requested_ns { 2 } else if e > 2 * requested_ns + 1_000_000 + SLACK_NS { 3 } else { 0 }
}

fn init() { crate::net::EventLoops::init(&crate::config::Config::single()); }

fn sc_select_time() -> i32 {
    init();
    let usec = arg("VERIF_C14_B");
    let mut tv = timeval { tv_sec: arg("VERIF_C14_A"), tv_usec: usec };
    let want = (tv.tv_sec as u128) * 1_000_000_000 + (usec as u128) * 1_000;
    let t0 = std::time::Instant::now();
    let r = crate::syscall::select(None, 0, std::ptr::null_mut(), std::ptr::null_mut(), std::ptr::null_mut(), &raw mut tv);
    judge(want, r == 0, t0)
}

fn sc_select_invalid() -> i32 {
    init();
    let mut tv = timeval { tv_sec: arg("VERIF_C14_A"), tv_usec: arg("VERIF_C14_B") };
    unsafe { *libc::__errno_location() = 0; }
    let r = crate::syscall::select(None, 0, std::ptr::null_mut(), std::ptr::null_mut(), std::ptr::null_mut(), &raw mut tv);
    let e = unsafe { *libc::__errno_location() };
    eprintln!("VERIF-REPLAY-CHILD select(tv_sec={}, tv_usec={}) returned {r}, errno {e}", tv.tv_sec, tv.tv_usec);
    if r == -1 && e == libc::EINVAL { 0 } else { 5 }
}

fn sc_poll_time() -> i32 {
    init();
    let ms = arg("VERIF_C14_A");
    let t0 = std::time::Instant::now();
    let r = crate::syscall::poll(None, std::ptr::null_mut(), 0, ms as std::ffi::c_int);
    judge((ms as u128) * 1_000_000, r == 0, t0)
}

fn sc_nanosleep_invalid() -> i32 {
    init();
    let rq = libc::timespec { tv_sec: arg("VERIF_C14_A"), tv_nsec: arg("VERIF_C14_B") };
    unsafe { *libc::__errno_location() = 0; }
    let r = crate::syscall::nanosleep(None, &rq, std::ptr::null_mut());
    let e = unsafe { *libc::__errno_location() };
    eprintln!("VERIF-REPLAY-CHILD nanosleep(tv_sec={}, tv_nsec={}) returned {r}, errno {e}", rq.tv_sec, rq.tv_nsec);
    if r == -1 && e == libc::EINVAL { 0 } else { 5 }
}

fn sc_nanosleep_time() -> i32 {
    init();
    let rq = libc::timespec { tv_sec: arg("VERIF_C14_A"), tv_nsec: arg("VERIF_C14_B") };
    let t0 = std::time::Instant::now();
    let r = crate::syscall::nanosleep(None, &rq, std::ptr::null_mut());
    judge((rq.tv_sec as u128) * 1_000_000_000 + rq.tv_nsec as u128, r == 0, t0)
}

fn sc_usleep_time() -> i32 {
    init();
    let us = arg("VERIF_C14_A");
    let t0 = std::time::Instant::now();
    let r = crate::syscall::usleep(None, us as std::ffi::c_uint);
    judge((us as u128) * 1_000, r == 0, t0)
}

fn sc_sleep_time() -> i32 {
    init();
    let s = arg("VERIF_C14_A");
    let t0 = std::time::Instant::now();
    let r = crate::syscall::sleep(None, s as std::ffi::c_uint);
    judge((s as u128) * 1_000_000_000, r == 0, t0)
}

#[test]
fn c14_native_replay() {
    let kind = std::env::var("VERIF_C14_KIND").unwrap_or_default();
    let (f, invalid): (fn() -> i32, bool) = match kind.as_str() {
        "select_time" => (sc_select_time, false),
        "select_invalid" => (sc_select_invalid, true),
        "poll_time" => (sc_poll_time, false),
        "nanosleep_invalid" => (sc_nanosleep_invalid, true),
        "nanosleep_time" => (sc_nanosleep_time, false),
        "usleep_time" => (sc_usleep_time, false),
        "sleep_time" => (sc_sleep_time, false),
        _ => { println!("VERIF-REPLAY unknown kind {kind:?}"); return; }
    };
    let c = in_child(f);
    println!("VERIF-REPLAY kind={kind} a={} b={} child status {c}", arg("VERIF_C14_A"), arg("VERIF_C14_B"));
    match (c, invalid) {
        (0, true) => println!("VERIF-REPLAY-NOT-REPRODUCED the invalid argument was rejected with -1/EINVAL"),
        (0, false) => println!("VERIF-REPLAY-UNDECIDED elapsed time within [requested, 2 x requested + 151 ms]: a difference of this size is below scheduling noise"),
        (2, _) => println!("VERIF-REPLAY-REPRODUCED C14: the call returned BEFORE the requested time had elapsed"),
        (3, _) => println!("VERIF-REPLAY-REPRODUCED C14: the call returned more than 150 ms + the requested time too late"),
        (4, _) => println!("VERIF-REPLAY-REPRODUCED C14: the call did not return 0 with nothing ready"),
        (5, _) => println!("VERIF-REPLAY-REPRODUCED C14: the invalid time argument was not rejected with -1/EINVAL"),
        (1006, _) => println!("VERIF-REPLAY-REPRODUCED C14: the process aborted (panic inside an extern \"C\" function)"),
        (1014, _) => println!("VERIF-REPLAY-REPRODUCED C14: the call was still waiting when the {ALARM_S} s alarm fired"),
        _ => println!("VERIF-REPLAY-REPRODUCED C14: child ended with status {c}"),
    }
}

//! Native replay for C14 (select): real event loop, plain thread caller, hooked entry point.
use super::*;

fn in_child(f: fn() -> i32) -> i32 {
    unsafe {
        let pid = libc::fork();
        if pid == 0 { let c = f(); libc::_exit(c); }
        let mut st = 0; libc::waitpid(pid, &mut st, 0);
        if libc::WIFEXITED(st) { libc::WEXITSTATUS(st) } else { 1000 + libc::WTERMSIG(st) }
    }
}

fn scenario_units() -> i32 {
    crate::net::EventLoops::init(&crate::config::Config::single());
    let mut tv = timeval { tv_sec: 0, tv_usec: 30_000 }; // 30 ms
    let t0 = std::time::Instant::now();
    unsafe { libc::alarm(3); } // give up after 3 s: a select of 30 ms must long be back
    let r = crate::syscall::select(None, 0, std::ptr::null_mut(), std::ptr::null_mut(), std::ptr::null_mut(), &raw mut tv);
    let ms = t0.elapsed().as_millis();
    if r == 0 && ms >= 30 && ms < 1500 { 0 } else { 2 }
}

fn scenario_negative() -> i32 {
    crate::net::EventLoops::init(&crate::config::Config::single());
    let mut tv = timeval { tv_sec: -1, tv_usec: 0 };
    unsafe { *libc::__errno_location() = 0; }
    let r = crate::syscall::select(None, 0, std::ptr::null_mut(), std::ptr::null_mut(), std::ptr::null_mut(), &raw mut tv);
    if r == -1 && unsafe { *libc::__errno_location() } == libc::EINVAL { 0 } else { 2 }
}

#[test]
fn c14_native_select_units() {
    let c = in_child(scenario_units);
    println!("VERIF-REPLAY child status {c}");
    if c == 0 { println!("VERIF-REPLAY-NOT-REPRODUCED"); }
    else { println!("VERIF-REPLAY-REPRODUCED C14: select with a 30 ms timeout and nothing ready was not back within 1.5 s (status {c}; 1014 = killed by the 3 s alarm)"); }
}

#[test]
fn c14_native_select_negative() {
    let c = in_child(scenario_negative);
    println!("VERIF-REPLAY child status {c}");
    if c == 0 { println!("VERIF-REPLAY-NOT-REPRODUCED"); }
    else { println!("VERIF-REPLAY-REPRODUCED C14: select with tv_sec = -1 did not return -1/EINVAL (status {c}; 1006 = process aborted)"); }
}

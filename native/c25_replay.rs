//! Native replay for C25 (real dashmap): values still stored must be dropped with their owner.
use super::*;
use std::sync::atomic::{AtomicUsize, Ordering};
static DROPS: AtomicUsize = AtomicUsize::new(0);
struct D(#[allow(dead_code)] u32);
impl Drop for D { fn drop(&mut self) { let _ = DROPS.fetch_add(1, Ordering::SeqCst); } }

#[test]
fn c25_native_replay() {
    let a = CoroutineLocal::default();
    assert!(a.put("k", D(1)).is_none());
    assert!(a.put("j", D(2)).is_none());
    drop(a);
    let n = DROPS.load(Ordering::SeqCst);
    println!("VERIF-REPLAY values stored 2, dropped with the owner {n}");
    if n == 2 { println!("VERIF-REPLAY-NOT-REPRODUCED"); } else { println!("VERIF-REPLAY-REPRODUCED C25.values_dropped_with_owner: {n} of 2 stored values were dropped"); }
}

//! Native replay for C09: two real coroutines on one thread (real corosensei, real thread-locals).
//! The first enters a syscall state and yields with until(ts) — what every hooked wait does; the second does a
//! plain suspend and must be reported as Suspend((), 0).
use super::*;
use crate::common::constants::{CoroutineState, SyscallName, SyscallState};

#[test]
fn c09_native_replay() {
    let ts = u64::MAX - 7;
    let mut a: Coroutine<'static, (), (), ()> = Coroutine::new(Some("c09-a".into()), move |s: &Suspender<(), ()>, ()| {
        let co = Coroutine::<(), (), ()>::current().unwrap();
        co.syscall((), SyscallName::sleep, SyscallState::Suspend(ts)).unwrap();
        s.until(ts);
    }, None, None).unwrap();
    let mut b: Coroutine<'static, (), (), ()> = Coroutine::new(Some("c09-b".into()), |s: &Suspender<(), ()>, ()| {
        s.suspend();
    }, None, None).unwrap();
    let ra = a.resume().unwrap();
    println!("VERIF-REPLAY first coroutine yielded in {ra:?}");
    let rb = b.resume().unwrap();
    println!("VERIF-REPLAY second coroutine (plain suspend) reported {rb:?}");
    if rb == CoroutineState::Suspend((), 0) { println!("VERIF-REPLAY-NOT-REPRODUCED"); }
    else { println!("VERIF-REPLAY-REPRODUCED C09: plain suspend of another coroutine reported {rb:?} instead of Suspend((), 0)"); }
    std::mem::forget(a); std::mem::forget(b);
}


//! Native replay for C16 / C17 / C18 (injected into syscall/unix/recvmsg.rs of the UNMODIFIED crate, real deps):
//! fixed scenarios on a real AF_UNIX socketpair through the crate's public hooked entry points, plus one scripted
//! inner call for the msg_iovlen clause (the only way to observe what is handed to the kernel without risking it).
//! Every scenario runs in a forked child (a panic in an extern "C" fn aborts the process).
use super::*;
use std::time::{Duration, Instant};

fn in_child(f: fn() -> i32) -> i32 {
    unsafe {
        let pid = libc::fork();
        if pid == 0 { libc::alarm(20); let c = f(); libc::_exit(c); }
        let mut st = 0; libc::waitpid(pid, &mut st, 0);
        if libc::WIFEXITED(st) { libc::WEXITSTATUS(st) } else { 1000 + libc::WTERMSIG(st) }
    }
}
fn pair() -> (c_int, c_int) {
    let mut fds = [0 as c_int; 2];
    unsafe { assert_eq!(libc::socketpair(libc::AF_UNIX, libc::SOCK_STREAM, 0, fds.as_mut_ptr()), 0); }
    (fds[0], fds[1])
}
fn rcvtimeo(fd: c_int, ms: i64) {
    let t = libc::timeval { tv_sec: ms / 1000, tv_usec: (ms % 1000) * 1000 };
    unsafe { assert_eq!(libc::setsockopt(fd, libc::SOL_SOCKET, libc::SO_RCVTIMEO, std::ptr::addr_of!(t).cast(), 16), 0); }
}
fn init() { crate::net::EventLoops::init(&crate::config::Config::single()); }
fn put(fd: c_int, bytes: &[u8]) { unsafe { assert_eq!(libc::write(fd, bytes.as_ptr().cast(), bytes.len()), bytes.len() as isize); } }

/// C16: a zero-length read on a socket returns 0
fn scenario_zero_len() -> i32 {
    init();
    let (a, _b) = pair();
    let mut buf = [0u8; 4];
    let r = crate::syscall::read(None, a, buf.as_mut_ptr().cast(), 0);
    let w = crate::syscall::write(None, a, buf.as_ptr().cast(), 0);
    if r == 0 && w == 0 { 0 } else { 2 }
}

/// C18: a descriptor the caller made non-blocking gets EAGAIN at once (here: within 100 ms of a 400 ms SO_RCVTIMEO)
fn scenario_nonblocking() -> i32 {
    init();
    let (a, _b) = pair();
    rcvtimeo(a, 400);
    unsafe { let fl = libc::fcntl(a, libc::F_GETFL); libc::fcntl(a, libc::F_SETFL, fl | libc::O_NONBLOCK); }
    let mut buf = [0u8; 4];
    let t0 = Instant::now();
    let r = crate::syscall::read(None, a, buf.as_mut_ptr().cast(), 4);
    let e = std::io::Error::last_os_error().raw_os_error();
    let waited = t0.elapsed();
    let still_nb = unsafe { libc::fcntl(a, libc::F_GETFL) } & libc::O_NONBLOCK != 0;
    if !still_nb { return 3; }
    if r == -1 && e == Some(libc::EAGAIN) && waited < Duration::from_millis(100) { 0 } else { 2 }
}

/// bytes still unread on `fd` (non-blocking drain with the real read(2))
fn drain(fd: c_int) -> usize {
    unsafe {
        let fl = libc::fcntl(fd, libc::F_GETFL);
        libc::fcntl(fd, libc::F_SETFL, fl | libc::O_NONBLOCK);
        let mut n = 0usize;
        let mut b = [0u8; 64];
        loop { let r = libc::read(fd, b.as_mut_ptr().cast(), 64); if r <= 0 { break; } n += r as usize; }
        n
    }
}
/// the call's result must be the number of stream bytes it consumed, and they must sit in order in the buffers
fn consistent(r: isize, consumed: usize, bufs: &[&[u8]]) -> bool {
    let cat: Vec<u8> = bufs.iter().flat_map(|b| b.iter().copied()).collect();
    println!("VERIF-REPLAY returned {r}, consumed {consumed} bytes of the stream, caller buffers {cat:?}");
    if consumed == 0 { return r == -1 || r == 0; }
    r >= 0 && r as usize == consumed && cat.iter().take(consumed).enumerate().all(|(i, v)| *v as usize == i + 1)
}

/// C16: after 4 bytes have been moved into the caller's first iovec a time-out must report 4, not -1
fn scenario_readv_total() -> i32 {
    init();
    let (a, b) = pair();
    rcvtimeo(a, 150);
    put(b, &[1, 2, 3, 4]);
    let mut b0 = [0u8; 4];
    let mut b1 = [0u8; 4];
    let iov = [libc::iovec { iov_base: b0.as_mut_ptr().cast(), iov_len: 4 }, libc::iovec { iov_base: b1.as_mut_ptr().cast(), iov_len: 4 }];
    let r = crate::syscall::readv(None, a, iov.as_ptr(), 2);
    let consumed = 4 - drain(a);
    if consistent(r, consumed, &[&b0, &b1]) { 0 } else { 2 }
}

/// C16/C17: a would-block in the middle of an iovec must not advance the request again on the retry
fn scenario_readv_retry_offset() -> i32 {
    init();
    let (a, b) = pair();
    rcvtimeo(a, 300);
    put(b, &[1, 2, 3, 4, 5, 6]);
    let h = std::thread::spawn(move || { std::thread::sleep(Duration::from_millis(4)); put(b, &[7, 8, 9, 10, 11, 12]); });
    let mut b0 = [0u8; 4];
    let mut b1 = [0u8; 8];
    let iov = [libc::iovec { iov_base: b0.as_mut_ptr().cast(), iov_len: 4 }, libc::iovec { iov_base: b1.as_mut_ptr().cast(), iov_len: 8 }];
    let r = crate::syscall::readv(None, a, iov.as_ptr(), 2);
    let _ = h.join();
    let consumed = 12 - drain(a);
    if consistent(r, consumed, &[&b0, &b1]) { 0 } else { 2 }
}

/// C17: the element count handed down with the rebuilt msghdr is the length of the array handed down
#[derive(Debug, Default)]
struct Scripted {}
static mut SEEN: [(usize, usize); 4] = [(0, 0); 4]; // (msg_iovlen, bytes described by the first element) per inner call
static mut NCALL: usize = 0;
impl RecvmsgSyscall for Scripted {
    extern "C" fn recvmsg(&self, _f: Option<&extern "C" fn(c_int, *mut msghdr, c_int) -> ssize_t>, _fd: c_int, msg: *mut msghdr, _flags: c_int) -> ssize_t {
        unsafe {
            let m = *msg;
            if NCALL < 4 { SEEN[NCALL] = (m.msg_iovlen as usize, (*m.msg_iov).iov_len); }
            NCALL += 1;
            match NCALL { 1 => 4, 2 => 4, _ => 0 } // first call fills the first iovec exactly, second the second
        }
    }
}
fn scenario_recvmsg_iovlen() -> i32 {
    init();
    let (a, _b) = pair();
    let mut b0 = [0u8; 4];
    let mut b1 = [0u8; 4];
    let mut iov = [libc::iovec { iov_base: b0.as_mut_ptr().cast(), iov_len: 4 }, libc::iovec { iov_base: b1.as_mut_ptr().cast(), iov_len: 4 }];
    let mut m: msghdr = unsafe { std::mem::zeroed() };
    m.msg_iov = iov.as_mut_ptr();
    m.msg_iovlen = 2;
    let nio: NioRecvmsgSyscall<Scripted> = NioRecvmsgSyscall::default();
    let r = nio.recvmsg(None, a, &raw mut m, 0);
    unsafe {
        println!("VERIF-REPLAY recvmsg returned {r}; inner calls saw (msg_iovlen, first len) = {:?}", &SEEN[..NCALL.min(4)]);
        if NCALL >= 2 && SEEN[1].0 != 1 { return 2; } // second request: only the second iovec is left: 1 element
        if r == 8 { 0 } else { 4 }
    }
}

fn report(name: &str, c: i32) {
    println!("VERIF-REPLAY {name}: child status {c}");
    if c == 0 { println!("VERIF-REPLAY-NOT-REPRODUCED"); }
    else if c == 2 || c == 1006 || c == 1014 { println!("VERIF-REPLAY-REPRODUCED {name} (status {c}{})", if c == 1006 { ": process aborted" } else if c == 1014 { ": still waiting when the 20 s alarm fired" } else { "" }); }
}
#[test] fn c16_native_zero_len() { report("C16 zero-length request", in_child(scenario_zero_len)); }
#[test] fn c16_native_nonblocking() { report("C18 non-blocking descriptor", in_child(scenario_nonblocking)); }
#[test] fn c16_native_readv_total() { report("C16 vectored total after progress", in_child(scenario_readv_total)); }
#[test] fn c16_native_readv_retry_offset() { report("C16/C17 retry inside an iovec", in_child(scenario_readv_retry_offset)); }
#[test] fn c16_native_recvmsg_iovlen() { report("C17 msg_iovlen", in_child(scenario_recvmsg_iovlen)); }

// ------------------------------------------------------------------------------------------------------------
// Decisive replay of a verifier counterexample: the same scripted kernel as harness/C16/model.rs, natively, through
// the crate's public entry points (the `fn_ptr` argument replaces the raw system call, everything above it is the
// real code with its real dependencies). VERIF_C16_SPEC = "<op> <nonblocking 0|1> <len0> <len1> <answers...>"
// with op in readv|writev|recvmsg|sendmsg|read|write and each answer one of: again, intr, hard, <count>.
mod script {
    use super::*;
    pub static mut ANSWERS: Vec<i64> = Vec::new(); // -11 again, -4 intr, -104 hard, >= 0 count
    pub static mut NEXT: usize = 0;
    pub static mut MOVED: usize = 0;
    pub static mut IS_READ: bool = false;
    pub static mut BUFS: [[u8; 8]; 2] = [[0xEE; 8]; 2];
    pub static mut LENS: [usize; 2] = [0; 2];
    pub static mut BAD: Vec<String> = Vec::new();
    pub fn sb(p: usize) -> u8 { (p + 1) as u8 }
    unsafe fn abs_pos(a: usize, l: usize) -> Option<usize> {
        let (b0, b1) = (BUFS[0].as_ptr() as usize, BUFS[1].as_ptr() as usize);
        if a >= b0 && a + l <= b0 + LENS[0] { return Some(a - b0); }
        if a >= b1 && a + l <= b1 + LENS[1] { return Some(LENS[0] + (a - b1)); }
        None
    }
    pub unsafe fn kernel(iov: *const libc::iovec, cnt: usize) -> isize {
        let mut cursor = MOVED;
        let mut room = 0;
        if cnt > 2 { BAD.push(format!("C17: {cnt} elements handed down, the caller has 2")); return -1; }
        for k in 0..cnt {
            let e = *iov.add(k);
            if e.iov_len > 0 {
                match abs_pos(e.iov_base as usize, e.iov_len) {
                    Some(p) if p >= cursor => cursor = p + e.iov_len,
                    Some(p) => BAD.push(format!("C17: element {k} covers stream position {p}, already transferred up to {cursor}")),
                    None => { BAD.push(format!("C17: element {k} lies outside the caller's buffers")); return -1; }
                }
                room += e.iov_len;
            }
        }
        let a = if NEXT < ANSWERS.len() { ANSWERS[NEXT] } else { -11 };
        NEXT += 1;
        if a < 0 { *libc::__errno_location() = (-a) as c_int; return -1; }
        let n = (a as usize).min(room);
        let (mut left, mut pos) = (n, MOVED);
        for j in 0..cnt {
            let e = *iov.add(j);
            let take = left.min(e.iov_len);
            for b in 0..take {
                let p = (e.iov_base as *mut u8).add(b);
                if IS_READ { *p = sb(pos); } else if *p != sb(pos) { BAD.push(format!("C16: byte handed to the kernel at stream position {pos} is {} instead of {}", *p, sb(pos))); }
                pos += 1;
            }
            left -= take;
        }
        MOVED += n;
        n as isize
    }
    pub extern "C" fn readv(_fd: c_int, iov: *const libc::iovec, cnt: c_int) -> ssize_t { unsafe { kernel(iov, cnt as usize) } }
    pub extern "C" fn writev(_fd: c_int, iov: *const libc::iovec, cnt: c_int) -> ssize_t { unsafe { kernel(iov, cnt as usize) } }
    pub extern "C" fn recvmsg(_fd: c_int, m: *mut msghdr, _f: c_int) -> ssize_t { unsafe { kernel((*m).msg_iov, (*m).msg_iovlen as usize) } }
    pub extern "C" fn sendmsg(_fd: c_int, m: *const msghdr, _f: c_int) -> ssize_t { unsafe { kernel((*m).msg_iov, (*m).msg_iovlen as usize) } }
    pub extern "C" fn read(_fd: c_int, buf: *mut c_void, len: usize) -> ssize_t { let e = libc::iovec { iov_base: buf, iov_len: len }; unsafe { kernel(&e, 1) } }
    pub extern "C" fn write(_fd: c_int, buf: *const c_void, len: usize) -> ssize_t { let e = libc::iovec { iov_base: buf.cast_mut(), iov_len: len }; unsafe { kernel(&e, 1) } }
}

fn scenario_script() -> i32 {
    use script::*;
    init();
    let spec = std::env::var("VERIF_C16_SPEC").unwrap_or_default();
    let w: Vec<&str> = spec.split_whitespace().collect();
    if w.len() < 4 { println!("VERIF-REPLAY bad spec"); return 9; }
    let (op, nb) = (w[0], w[1] == "1");
    unsafe {
        LENS = [w[2].parse().unwrap_or(0), w[3].parse().unwrap_or(0)];
        ANSWERS = w[4..].iter().map(|a| match *a { "again" => -11, "intr" => -4, "hard" => -104, n => n.parse().unwrap_or(0) }).collect();
        IS_READ = matches!(op, "readv" | "recvmsg" | "read");
        let mut p = 0;
        for j in 0..2 { for b in 0..8 { BUFS[j][b] = if IS_READ || b >= LENS[j] { 0xEE } else { let v = sb(p); p += 1; v }; } }
        let (a, _b) = pair();
        rcvtimeo(a, 60);
        let t = libc::timeval { tv_sec: 0, tv_usec: 60_000 };
        libc::setsockopt(a, libc::SOL_SOCKET, libc::SO_SNDTIMEO, std::ptr::addr_of!(t).cast(), 16);
        if nb { let fl = libc::fcntl(a, libc::F_GETFL); libc::fcntl(a, libc::F_SETFL, fl | libc::O_NONBLOCK); }
        let mut iov = [libc::iovec { iov_base: BUFS[0].as_mut_ptr().cast(), iov_len: LENS[0] }, libc::iovec { iov_base: BUFS[1].as_mut_ptr().cast(), iov_len: LENS[1] }];
        let mut m: msghdr = std::mem::zeroed();
        m.msg_iov = iov.as_mut_ptr();
        m.msg_iovlen = 2;
        *libc::__errno_location() = 0;
        let r: isize = match op {
            "readv" => crate::syscall::readv(Some(&(script::readv as extern "C" fn(c_int, *const libc::iovec, c_int) -> ssize_t)), a, iov.as_ptr(), 2),
            "writev" => crate::syscall::writev(Some(&(script::writev as extern "C" fn(c_int, *const libc::iovec, c_int) -> ssize_t)), a, iov.as_ptr(), 2),
            "recvmsg" => crate::syscall::recvmsg(Some(&(script::recvmsg as extern "C" fn(c_int, *mut msghdr, c_int) -> ssize_t)), a, &raw mut m, 0),
            "sendmsg" => crate::syscall::sendmsg(Some(&(script::sendmsg as extern "C" fn(c_int, *const msghdr, c_int) -> ssize_t)), a, &raw const m, 0),
            "read" => crate::syscall::read(Some(&(script::read as extern "C" fn(c_int, *mut c_void, usize) -> ssize_t)), a, BUFS[0].as_mut_ptr().cast(), LENS[0]),
            _ => crate::syscall::write(Some(&(script::write as extern "C" fn(c_int, *const c_void, usize) -> ssize_t)), a, BUFS[0].as_ptr().cast(), LENS[0]),
        };
        let e = *libc::__errno_location();
        let still_nb = libc::fcntl(a, libc::F_GETFL) & libc::O_NONBLOCK != 0;
        if still_nb != nb { BAD.push(format!("C18: O_NONBLOCK is {still_nb} on return, was {nb} on entry")); }
        if r >= 0 && r as usize != MOVED { BAD.push(format!("C16: returned {r}, the kernel moved {MOVED}")); }
        if r < 0 && MOVED > 0 { BAD.push(format!("C16: returned {r} (errno {e}) although the kernel moved {MOVED}")); }
        if IS_READ {
            let mut p = 0;
            for j in 0..2 { for b in 0..8 {
                let want = if b < LENS[j] && p < MOVED { sb(p) } else { 0xEE };
                if b < LENS[j] { p += 1; }
                if BUFS[j][b] != want { BAD.push(format!("C16: caller buffer {j}[{b}] holds {} instead of {want}", BUFS[j][b])); }
            } }
        }
        println!("VERIF-REPLAY script `{spec}`: returned {r} errno {e}, kernel calls {NEXT}, moved {MOVED}");
        for b in BAD.iter() { println!("VERIF-REPLAY finding: {b}"); }
        if BAD.is_empty() { 0 } else { 2 }
    }
}
#[test] fn c16_native_script() { report("scripted kernel", in_child(scenario_script)); }

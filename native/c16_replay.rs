//! Native replay for C16 / C17 / C18 (injected into syscall/unix/recvmsg.rs of the UNMODIFIED crate, real deps):
//! fixed scenarios on a real AF_UNIX socketpair through the crate's public hooked entry points, plus one scripted
//! inner call for the msg_iovlen clause (the only way to observe what is handed to the kernel without risking it).
//! Every scenario runs in a forked child (a panic in an extern "C" fn aborts the process).
use super::*;
use std::time::{Duration, Instant};

fn in_child(f: fn() -> i32) -> i32 {
    unsafe {
        let pid = libc::fork();
        if pid == 0 { libc::alarm(20); let c = f(); libc::_exit(c); }
        let mut st = 0; libc::waitpid(pid, &mut st, 0);
        if libc::WIFEXITED(st) { libc::WEXITSTATUS(st) } else { 1000 + libc::WTERMSIG(st) }
    }
}
fn pair() -> (c_int, c_int) {
    let mut fds = [0 as c_int; 2];
    unsafe { assert_eq!(libc::socketpair(libc::AF_UNIX, libc::SOCK_STREAM, 0, fds.as_mut_ptr()), 0); }
    (fds[0], fds[1])
}
fn rcvtimeo(fd: c_int, ms: i64) {
    let t = libc::timeval { tv_sec: ms / 1000, tv_usec: (ms % 1000) * 1000 };
    unsafe { assert_eq!(libc::setsockopt(fd, libc::SOL_SOCKET, libc::SO_RCVTIMEO, std::ptr::addr_of!(t).cast(), 16), 0); }
}
fn init() { crate::net::EventLoops::init(&crate::config::Config::single()); }
fn put(fd: c_int, bytes: &[u8]) { unsafe { assert_eq!(libc::write(fd, bytes.as_ptr().cast(), bytes.len()), bytes.len() as isize); } }

/// C16: a zero-length read on a socket returns 0
fn scenario_zero_len() -> i32 {
    init();
    let (a, _b) = pair();
    let mut buf = [0u8; 4];
    let r = crate::syscall::read(None, a, buf.as_mut_ptr().cast(), 0);
    let w = crate::syscall::write(None, a, buf.as_ptr().cast(), 0);
    if r == 0 && w == 0 { 0 } else { 2 }
}

/// C18: a descriptor the caller made non-blocking gets EAGAIN at once (here: within 100 ms of a 400 ms SO_RCVTIMEO)
fn scenario_nonblocking() -> i32 {
    init();
    let (a, _b) = pair();
    rcvtimeo(a, 400);
    unsafe { let fl = libc::fcntl(a, libc::F_GETFL); libc::fcntl(a, libc::F_SETFL, fl | libc::O_NONBLOCK); }
    let mut buf = [0u8; 4];
    let t0 = Instant::now();
    let r = crate::syscall::read(None, a, buf.as_mut_ptr().cast(), 4);
    let e = std::io::Error::last_os_error().raw_os_error();
    let waited = t0.elapsed();
    let still_nb = unsafe { libc::fcntl(a, libc::F_GETFL) } & libc::O_NONBLOCK != 0;
    if !still_nb { return 3; }
    if r == -1 && e == Some(libc::EAGAIN) && waited < Duration::from_millis(100) { 0 } else { 2 }
}

/// bytes still unread on `fd` (non-blocking drain with the real read(2))
fn drain(fd: c_int) -> usize {
    unsafe {
        let fl = libc::fcntl(fd, libc::F_GETFL);
        libc::fcntl(fd, libc::F_SETFL, fl | libc::O_NONBLOCK);
        let mut n = 0usize;
        let mut b = [0u8; 64];
        loop { let r = libc::read(fd, b.as_mut_ptr().cast(), 64); if r <= 0 { break; } n += r as usize; }
        n
    }
}
/// the call's result must be the number of stream bytes it consumed, and they must sit in order in the buffers
fn consistent(r: isize, consumed: usize, bufs: &[&[u8]]) -> bool {
    let cat: Vec<u8> = bufs.iter().flat_map(|b| b.iter().copied()).collect();
    println!("VERIF-REPLAY returned {r}, consumed {consumed} bytes of the stream, caller buffers {cat:?}");
    if consumed == 0 { return r == -1 || r == 0; }
    r >= 0 && r as usize == consumed && cat.iter().take(consumed).enumerate().all(|(i, v)| *v as usize == i + 1)
}

/// C16: after 4 bytes have been moved into the caller's first iovec a time-out must report 4, not -1
fn scenario_readv_total() -> i32 {
    init();
    let (a, b) = pair();
    rcvtimeo(a, 150);
    put(b, &[1, 2, 3, 4]);
    let mut b0 = [0u8; 4];
    let mut b1 = [0u8; 4];
    let iov = [libc::iovec { iov_base: b0.as_mut_ptr().cast(), iov_len: 4 }, libc::iovec { iov_base: b1.as_mut_ptr().cast(), iov_len: 4 }];
    let r = crate::syscall::readv(None, a, iov.as_ptr(), 2);
    let consumed = 4 - drain(a);
    if consistent(r, consumed, &[&b0, &b1]) { 0 } else { 2 }
}

/// C16/C17: a would-block in the middle of an iovec must not advance the request again on the retry
fn scenario_readv_retry_offset() -> i32 {
    init();
    let (a, b) = pair();
    rcvtimeo(a, 300);
    put(b, &[1, 2, 3, 4, 5, 6]);
    let h = std::thread::spawn(move || { std::thread::sleep(Duration::from_millis(4)); put(b, &[7, 8, 9, 10, 11, 12]); });
    let mut b0 = [0u8; 4];
    let mut b1 = [0u8; 8];
    let iov = [libc::iovec { iov_base: b0.as_mut_ptr().cast(), iov_len: 4 }, libc::iovec { iov_base: b1.as_mut_ptr().cast(), iov_len: 8 }];
    let r = crate::syscall::readv(None, a, iov.as_ptr(), 2);
    let _ = h.join();
    let consumed = 12 - drain(a);
    if consistent(r, consumed, &[&b0, &b1]) { 0 } else { 2 }
}

/// C17: the element count handed down with the rebuilt msghdr is the length of the array handed down
#[derive(Debug, Default)]
struct Scripted {}
static mut SEEN: [(usize, usize); 4] = [(0, 0); 4]; // (msg_iovlen, bytes described by the first element) per inner call
static mut NCALL: usize = 0;
impl RecvmsgSyscall for Scripted {
    extern "C" fn recvmsg(&self, _f: Option<&extern "C" fn(c_int, *mut msghdr, c_int) -> ssize_t>, _fd: c_int, msg: *mut msghdr, _flags: c_int) -> ssize_t {
        unsafe {
            let m = *msg;
            if NCALL < 4 { SEEN[NCALL] = (m.msg_iovlen as usize, (*m.msg_iov).iov_len); }
            NCALL += 1;
            match NCALL { 1 => 4, 2 => 4, _ => 0 } // first call fills the first iovec exactly, second the second
        }
    }
}
fn scenario_recvmsg_iovlen() -> i32 {
    init();
    let (a, _b) = pair();
    let mut b0 = [0u8; 4];
    let mut b1 = [0u8; 4];
    let mut iov = [libc::iovec { iov_base: b0.as_mut_ptr().cast(), iov_len: 4 }, libc::iovec { iov_base: b1.as_mut_ptr().cast(), iov_len: 4 }];
    let mut m: msghdr = unsafe { std::mem::zeroed() };
    m.msg_iov = iov.as_mut_ptr();
    m.msg_iovlen = 2;
    let nio: NioRecvmsgSyscall<Scripted> = NioRecvmsgSyscall::default();
    let r = nio.recvmsg(None, a, &raw mut m, 0);
    unsafe {
        println!("VERIF-REPLAY recvmsg returned {r}; inner calls saw (msg_iovlen, first len) = {:?}", &SEEN[..NCALL.min(4)]);
        if NCALL >= 2 && SEEN[1].0 != 1 { return 2; } // second request: only the second iovec is left: 1 element
        if r == 8 { 0 } else { 4 }
    }
}

fn report(name: &str, c: i32) {
    println!("VERIF-REPLAY {name}: child status {c}");
    if c == 0 { println!("VERIF-REPLAY-NOT-REPRODUCED"); }
    else if c == 2 || c == 1006 || c == 1014 { println!("VERIF-REPLAY-REPRODUCED {name} (status {c}{})", if c == 1006 { ": process aborted" } else if c == 1014 { ": still waiting when the 20 s alarm fired" } else { "" }); }
}
#[test] fn c16_native_zero_len() { report("C16 zero-length request", in_child(scenario_zero_len)); }
#[test] fn c16_native_nonblocking() { report("C18 non-blocking descriptor", in_child(scenario_nonblocking)); }
#[test] fn c16_native_readv_total() { report("C16 vectored total after progress", in_child(scenario_readv_total)); }
#[test] fn c16_native_readv_retry_offset() { report("C16/C17 retry inside an iovec", in_child(scenario_readv_retry_offset)); }
#[test] fn c16_native_recvmsg_iovlen() { report("C17 msg_iovlen", in_child(scenario_recvmsg_iovlen)); }
